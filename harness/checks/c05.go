package checks

import (
	"encoding/json"
	"fmt"
	"strings"
	"sync/atomic"

	"github.com/paulsonkoly/chess-3/board"
	"github.com/paulsonkoly/chess-3/move"

	"verif/eng"
	"verif/ev"
	"verif/refchess"
	"verif/universe"
)

// C05 — IsPseudoLegal accepts exactly the generated encodings, over all 2^15.

type c05Case struct {
	FEN  string `json:"fen"`
	Enc  int    `json:"encoding"`
	Move string `json:"move"`
}

// c05Position compares the gate with the generator on all 32768 encodings.
// It calls report for each disagreement and returns the number of generated moves.
func c05Position(ms *move.Store, b *board.Board, report func(enc uint16, accepted bool)) int {
	var gen [256]uint16
	var set [32768 / 64]uint64
	g := eng.Generated(ms, b, gen[:0])
	for _, e := range g {
		set[e>>6] |= 1 << (e & 63)
	}
	for e := 0; e < 32768; e++ {
		acc := b.IsPseudoLegal(move.Move(e))
		in := set[e>>6]&(1<<(uint(e)&63)) != 0
		if acc != in {
			report(uint16(e), acc)
		}
	}
	return len(g)
}

// c05Class names the kind of disagreement (for known-finding matching and
// to keep different defects apart).
func c05Class(b *board.Board, enc uint16, accepted bool) string {
	m := move.Move(enc)
	pc := b.SquaresToPiece[m.From()]
	kind := []string{"none", "pawn", "knight", "bishop", "rook", "queen", "king"}[pc]
	dir := "rejects-generated"
	if accepted {
		dir = "accepts-ungenerated"
	}
	extra := ""
	if m.Promo() != 0 {
		extra = fmt.Sprintf("/promo%d", m.Promo())
	}
	if pc == 6 && (m.From()-m.To() == 2 || m.To()-m.From() == 2) {
		extra += "/castling"
	}
	return dir + "/" + kind + extra
}

func c05Replay(class string, raw json.RawMessage) (bool, string) {
	var c c05Case
	if err := json.Unmarshal(raw, &c); err != nil {
		return false, err.Error()
	}
	b, err := board.FromFEN(c.FEN)
	if err != nil {
		return false, err.Error()
	}
	var gen [256]uint16
	in := false
	for _, e := range eng.Generated(move.NewStore(), b, gen[:0]) {
		if int(e) == c.Enc {
			in = true
		}
	}
	acc := b.IsPseudoLegal(move.Move(c.Enc))
	if acc != in {
		return true, fmt.Sprintf("%s: encoding %d (%s, promo bits %d): IsPseudoLegal=%v, generated=%v", c.FEN, c.Enc, eng.Name(uint16(c.Enc)), move.Move(c.Enc).Promo(), acc, in)
	}
	return false, "gate and generator agree"
}

func init() {
	register(&Check{ID: "C05", Level: "model_checking", Run: runC05, Replay: c05Replay})
}

func runC05(r *ev.Run) {
	var positions, encodings, generated, disagreements atomic.Int64
	handle := func(ms *move.Store, b *board.Board, fen func() string) {
		positions.Add(1)
		encodings.Add(32768)
		n := c05Position(ms, b, func(enc uint16, acc bool) {
			disagreements.Add(1)
			f := fen()
			r.Fail(c05Class(b, enc, acc), c05Case{FEN: f, Enc: int(enc), Move: eng.Name(enc)},
				"%s: encoding %d (%s, promo bits %d): IsPseudoLegal=%v but generator says %v", f, enc, eng.Name(enc), move.Move(enc).Promo(), acc, !acc)
		})
		generated.Add(int64(n))
	}

	// U2: trees below the root corpus
	roots := universe.AllRoots()
	depth := ev.Pick(r, 1, 2)
	var n2 atomic.Int64
	ev.Parallel(len(roots), func(worker, item int) {
		if r.Expired() {
			return
		}
		root := roots[item]
		ms := move.NewStore()
		w := &universe.Walker{}
		w.Visit = func(w *universe.Walker, p *refchess.Pos, left int) bool {
			n2.Add(1)
			handle(ms, w.B, func() string { return w.B.FEN() })
			if p.Ep >= 0 {
				// also with the FIDE-style en-passant target as a GUI would send it
				handle(ms, eng.Load(p), p.FEN)
			}
			if n2.Load()%3000 == 1 {
				r.Sample(map[string]any{"fen": w.B.FEN(), "encodings": 32768})
			}
			return !r.Expired()
		}
		w.Walk(&root.Pos, eng.Load(&root.Pos), depth)
	})
	r.Set("u2_nodes", n2.Load())
	r.Set("u2_depth", depth)

	// U1: classes (every geometry of few men, incl. all rights / ep variants)
	var classes []universe.Class
	opts := universe.Opts{}
	if r.Thorough() {
		classes = universe.ThreeMan()
		classes = append(classes, parseClasses([]string{"KRkr", "KPkp"})...)
		opts.OnlySpecial = false
	} else {
		three := []string{"KPk", "KQk", "KRk", "KBk", "KNk", "Kkp", "Kkq", "Kkr", "Kkb", "Kkn"}
		classes = parseClasses(seedPick(three, r.Seed, 1))
	}
	r.Set("classes", classNames(classes))
	type worker struct {
		ld eng.Loader
		ms *move.Store
	}
	forClasses(r, classes, opts, func() *worker { return &worker{ms: move.NewStore()} }, func(w *worker, p *refchess.Pos) {
		handle(w.ms, w.ld.Load(p), p.FEN)
	})
	// rights/ep bearing sub-classes of 4-man classes (castling and en-passant branches of the gate)
	special := parseClasses(ev.Pick(r, []string{"KRkr", "KPkp"}, []string{"KRkr", "KPkp", "KRkp", "KQkr", "KRkb", "KRkn", "KPPk", "Kkpp"}))
	forClasses(r, special, universe.Opts{OnlySpecial: true}, func() *worker { return &worker{ms: move.NewStore()} }, func(w *worker, p *refchess.Pos) {
		handle(w.ms, w.ld.Load(p), p.FEN)
	})
	r.Set("special_subclasses", classNames(special))

	// the same gate as seen from the GUI: a malformed move string must not be played
	c05UCI(r)

	r.States.Store(positions.Load())
	r.Transitions.Store(encodings.Load())
	r.Validated.Store(encodings.Load())
	r.Evals.Store(encodings.Load())
	r.Nontrivial.Store(generated.Load())
	r.Set("positions", positions.Load())
	r.Set("rule", "for every position (tree nodes below the root corpus as played and with FIDE-style ep FEN; every position of the listed classes; the rights/ep-bearing positions of the listed 4-man classes) ALL 32768 encodings are put through IsPseudoLegal and compared with membership in GenNoisy+GenNotNoisy; non-trivial = encodings that are generated moves (must be accepted), all others must be rejected")
}

// c05UCI: `position <root> moves <bad>` must leave the board unchanged for
// syntactically valid strings that are not moves of the position.
func c05UCI(r *ev.Run) {
	type probe struct{ fen, mv string }
	probes := []probe{
		{"rnbqkbnr/pppppppp/8/8/8/8/PPPPPPPP/RNBQKBNR w KQkq - 0 1", "e2e4q"},
		{"rnbqkbnr/pppppppp/8/8/8/8/PPPPPPPP/RNBQKBNR w KQkq - 0 1", "e2e3n"},
		{"rnbqkbnr/pppppppp/8/8/8/8/PPPPPPPP/RNBQKBNR w KQkq - 0 1", "g1f3q"},
		{"rnbqkbnr/pppp1ppp/8/4p3/4P3/8/PPPP1PPP/RNBQKBNR w KQkq - 0 2", "d2d4r"},
		{"4k3/P7/8/8/8/8/8/4K3 w - - 0 1", "a7a8"},
		{"4k3/8/8/3pP3/8/8/8/4K3 w - d6 0 1", "e5d6b"},
	}
	for _, pr := range probes {
		out, _ := runDriver("position fen "+pr.fen+" moves "+pr.mv+"\nfen\n", nullSearch{})
		got := strings.TrimSpace(out)
		b, _ := board.FromFEN(pr.fen)
		if got != b.FEN() {
			r.Fail("uci/plays-ungenerated-move", c05Case{FEN: pr.fen, Move: pr.mv}, "position fen %s moves %s: the driver played it: %s", pr.fen, pr.mv, got)
		}
	}
	// every string of length 4 over a 14-byte alphabet, and every generated move followed by every byte, as a GUI
	// move: afterwards the board is either unchanged or the position after one generated move of the root
	roots := []string{
		"rnbqkbnr/pppppppp/8/8/8/8/PPPPPPPP/RNBQKBNR w KQkq - 0 1",
		"r3k2r/1P4P1/8/3pP3/8/8/1p4p1/R3K2R w KQkq d6 0 1",
		"r3k2r/1P4P1/8/8/3Pp3/8/1p4p1/R3K2R b KQkq d3 0 1",
	}
	alpha := []byte("aeh1248qQRi9`0")
	var tried atomic.Int64
	ev.Parallel(len(roots)*len(alpha), func(worker, item int) {
		fen := roots[item/len(alpha)]
		first := alpha[item%len(alpha)]
		b, _ := board.FromFEN(fen)
		allowed := map[string]bool{b.FEN(): true}
		ms := move.NewStore()
		var gen [256]uint16
		var moves []string
		for _, e := range eng.Generated(ms, b, gen[:0]) {
			rv := b.MakeMove(move.Move(e))
			allowed[b.FEN()] = true
			b.UndoMove(move.Move(e), rv)
			moves = append(moves, move.Move(e).String())
		}
		var script strings.Builder
		var sent []string
		add := func(s string) {
			fmt.Fprintf(&script, "position fen %s moves %s\nfen\n", fen, s)
			sent = append(sent, s)
		}
		for _, c2 := range alpha {
			for _, c3 := range alpha {
				for _, c4 := range alpha {
					add(string([]byte{first, c2, c3, c4}))
				}
			}
		}
		if item%len(alpha) == 0 {
			for _, m := range moves {
				base := m[:4]
				for c := 33; c < 256; c++ {
					if c == 127 {
						continue
					}
					add(base + string([]byte{byte(c)}))
				}
			}
		}
		out, _ := runDriver(script.String(), nullSearch{})
		lines := strings.Split(strings.TrimRight(out, "\n"), "\n")
		tried.Add(int64(len(sent)))
		for i, s := range sent {
			if i >= len(lines) || !allowed[lines[i]] {
				got := ""
				if i < len(lines) {
					got = lines[i]
				}
				r.Fail("uci/plays-ungenerated-move", c05Case{FEN: fen, Move: s}, "position fen %s moves %q: the driver now holds %q, which is neither the root nor the position after a generated move", fen, s, got)
				return
			}
		}
	})
	r.Set("uci_move_strings", tried.Load())
}
