package checks

import (
	"encoding/json"
	"fmt"
	"math/bits"
	"sort"
	"sync/atomic"

	"github.com/paulsonkoly/chess-3/board"
	. "github.com/paulsonkoly/chess-3/chess"
	"github.com/paulsonkoly/chess-3/heur"
	"github.com/paulsonkoly/chess-3/move"
	"github.com/paulsonkoly/chess-3/picker"
	"github.com/paulsonkoly/chess-3/stack"

	"verif/eng"
	"verif/ev"
	"verif/refchess"
	"verif/universe"
)

// C16 — the move picker yields every pseudo-legal move exactly once, hash
// move first; history weights stay in their band.

type c16Case struct {
	FEN      string `json:"fen,omitempty"`
	HashMove int    `json:"hash_move"`
	Ranker   string `json:"ranker,omitempty"` // fresh, up, down, alt
	Stack    int    `json:"stack_moves,omitempty"`
	Table    string `json:"table,omitempty"`   // band cases: history / continuation / capthist
	Bonuses  []int  `json:"bonuses,omitempty"` // band cases: the update sequence from 0
}

// c16Ranker builds a ranker state by real FailHigh calls on b.
func c16Ranker(kind string, b *board.Board, ms *move.Store, hs *stack.Stack[heur.StackMove]) *heur.MoveRanker {
	mr := heur.NewMoveRanker()
	c16FillRanker(&mr, kind, b, ms, hs)
	return &mr
}

// c16Reusable is a ranker that is cleared only when it was written to.
type c16Reusable struct {
	mr    heur.MoveRanker
	made  bool
	dirty bool
}

func (c *c16Reusable) get(kind string, b *board.Board, ms *move.Store, hs *stack.Stack[heur.StackMove]) *heur.MoveRanker {
	if !c.made {
		c.mr = heur.NewMoveRanker()
		c.made = true
	}
	if c.dirty {
		c.mr.Clear()
		c.dirty = false
	}
	if kind != "fresh" {
		c16FillRanker(&c.mr, kind, b, ms, hs)
		c.dirty = true
	}
	return &c.mr
}

func c16FillRanker(mr *heur.MoveRanker, kind string, b *board.Board, ms *move.Store, hs *stack.Stack[heur.StackMove]) {
	if kind == "fresh" {
		return
	}
	var gen [256]uint16
	g := eng.Generated(ms, b, gen[:0])
	for rep := 0; rep < 24; rep++ {
		for i, e := range g {
			up := kind == "up" || (kind == "alt" && i%2 == 0)
			m := move.Weighted{Move: move.Move(e), Weight: -Inf}
			if up {
				mr.FailHigh(63, b, []move.Weighted{m}, hs)
			} else {
				// m is not the last move of the list: it receives the malus
				other := g[(i+1)%len(g)]
				mr.FailHigh(63, b, []move.Weighted{m, {Move: move.Move(other)}}, hs)
			}
		}
	}
}

// c16Pick runs the picker to exhaustion and judges the yielded sequence.
func c16Pick(b *board.Board, ms *move.Store, mr *heur.MoveRanker, hs *stack.Stack[heur.StackMove], hash uint16, gen []uint16) string {
	// the picker's frame lies on top of 0, 9 or 18 moves of enclosing frames, as at every node below the root of a search
	ms.Push()
	defer ms.Pop()
	for k := 0; k < int(hash%3)*9; k++ {
		ms.Alloc(move.Move(hash ^ uint16(k*977)))
	}
	ms.Push()
	defer ms.Pop()
	pck := picker.New(b, move.Move(hash), ms, mr, hs)
	inGen := false
	for _, e := range gen {
		if e == hash {
			inGen = true
		}
	}
	var yielded []uint16
	for pck.Next() {
		w := pck.Move()
		yielded = append(yielded, uint16(w.Move))
		if len(yielded) > 300 {
			return "the picker does not terminate (more than 300 moves yielded)"
		}
		wt := w.Weight
		first := len(yielded) == 1
		if first && inGen {
			if uint16(w.Move) != hash {
				return fmt.Sprintf("hash move %s is pseudo-legal but %s is yielded first", eng.Name(hash), w.Move)
			}
			continue
		}
		if wt == heur.HashMove || wt == -heur.HashMove {
			return fmt.Sprintf("move %s carries the hash-move sentinel weight %d", w.Move, wt)
		}
		captured := b.SquaresToPiece[b.CaptureSq(w.Move)]
		noisy := captured != NoPiece || w.Move.Promo() != NoPiece
		if noisy {
			if !(wt >= heur.Captures && wt < heur.HashMove) && !(wt <= -heur.Captures && wt > -heur.HashMove) {
				return fmt.Sprintf("noisy move %s has weight %d outside the capture bands", w.Move, wt)
			}
		} else if wt < -3*heur.MaxHistory || wt > 3*heur.MaxHistory {
			return fmt.Sprintf("quiet move %s has weight %d outside +-%d", w.Move, wt, 3*heur.MaxHistory)
		}
	}
	ys := eng.Sorted(yielded)
	gs := eng.Sorted(gen)
	if !eng.EqualSets(ys, gs) {
		return fmt.Sprintf("yielded %v, generated %v", eng.MoveNames(ys), eng.MoveNames(gs))
	}
	return ""
}

func c16Stack(n int) *stack.Stack[heur.StackMove] {
	hs := stack.New[heur.StackMove]()
	if n >= 1 {
		hs.Push(heur.StackMove{Piece: Knight, To: F3, Score: 10})
	}
	if n >= 2 {
		hs.Push(heur.StackMove{Piece: Pawn, To: E5, Score: -10})
	}
	return hs
}

func c16Replay(class string, raw json.RawMessage) (bool, string) {
	var c c16Case
	if err := json.Unmarshal(raw, &c); err != nil {
		return false, err.Error()
	}
	if c.Table != "" {
		v, bad := c16BandReplay(c.Table, c.Bonuses)
		if bad {
			return true, fmt.Sprintf("%s: updates %v from 0 give %d, outside +-%d", c.Table, c.Bonuses, v, heur.MaxHistory)
		}
		return false, "stays in band"
	}
	b, err := board.FromFEN(c.FEN)
	if err != nil {
		return false, err.Error()
	}
	ms := move.NewStore()
	hs := c16Stack(c.Stack)
	mr := c16Ranker(c.Ranker, b, ms, hs)
	var gen [256]uint16
	g := eng.Generated(ms, b, gen[:0])
	if msg := c16Pick(b, ms, mr, hs, uint16(c.HashMove), g); msg != "" {
		return true, msg
	}
	return false, "picker yields the generated set once, hash move first"
}

func init() {
	register(&Check{ID: "C16", Level: "model_checking", Run: runC16, Replay: c16Replay})
}

var c16Foreign = func() []uint16 {
	// a fixed set of 64 foreign encodings: corners, promotions bits on random squares, the engine's own sentinel-looking values
	out := []uint16{0x0007, 0x01c0, 0x7fff, 0x7000, 0x1000, 0x6fc0, 0x0fff, 0x0040}
	x := uint32(12345)
	for len(out) < 64 {
		x = x*1664525 + 1013904223
		out = append(out, uint16(x>>13)&0x7fff)
	}
	return out
}()

// c16NearMisses lists encodings that look like moves of this very position but mostly are not: the four castling
// encodings whatever the rights and the squares in between, and for every pawn of the side to move all one- and
// two-square steps straight and diagonal, forwards and backwards (with the promotion bits 0, and 1, 6, 7 onto the
// edge ranks) - what a table entry of a neighbouring position typically holds.
func c16NearMisses(b *board.Board, out []uint16) []uint16 {
	enc := func(from, to, promo int) uint16 { return uint16(to) | uint16(from)<<6 | uint16(promo)<<12 }
	out = append(out, enc(4, 6, 0), enc(4, 2, 0), enc(60, 62, 0), enc(60, 58, 0))
	pawns := uint64(b.Pieces[Pawn] & b.Colors[b.STM])
	for ; pawns != 0 && len(out) < 240; pawns &= pawns - 1 {
		from := bits.TrailingZeros64(pawns)
		for _, d := range []int{7, 8, 9, 16, -7, -8, -9, -16} {
			to := from + d
			if to < 0 || to > 63 {
				continue
			}
			if df := to&7 - from&7; df < -1 || df > 1 {
				continue
			}
			out = append(out, enc(from, to, 0))
			if to < 8 || to > 55 {
				out = append(out, enc(from, to, 1), enc(from, to, 6), enc(from, to, 7))
			}
		}
	}
	return out
}

func runC16(r *ev.Run) {
	var runs, positions, hashFirst, allEnc atomic.Int64
	rankers := []string{"fresh", "up", "down", "alt"}
	handle := func(b *board.Board, ms *move.Store, ru *c16Reusable, fen func() string, full bool, rankers []string, stacks []int) {
		positions.Add(1)
		var gen [256]uint16
		var nm [256]uint16
		g := eng.Generated(ms, b, gen[:0])
		for si, stk := range stacks {
			hs := c16Stack(stk)
			for _, rk := range rankers {
				if si == 1 && (rk == "fresh" || rk == "alt") && !r.Thorough() {
					continue
				}
				mr := ru.get(rk, b, ms, hs)
				try := func(h uint16) {
					runs.Add(1)
					if msg := c16Pick(b, ms, mr, hs, h, g); msg != "" {
						f := fen()
						r.Fail("picker/"+rk, c16Case{FEN: f, HashMove: int(h), Ranker: rk, Stack: stk}, "%s hash move %s ranker %s stack %d: %s", f, eng.Name(h), rk, stk, msg)
					}
				}
				try(0)
				for _, h := range g {
					hashFirst.Add(1)
					try(h)
				}
				for _, h := range c16Foreign {
					try(h)
				}
				for _, h := range c16NearMisses(b, nm[:0]) {
					try(h)
				}
				if full && rk == "fresh" && si == 0 {
					allEnc.Add(1)
					for h := 0; h < 32768; h++ {
						try(uint16(h))
					}
				}
			}
		}
	}

	roots := universe.AllRoots()
	depth := ev.Pick(r, 1, 2)
	var n2 atomic.Int64
	ev.Parallel(len(roots), func(worker, item int) {
		if r.Expired() {
			return
		}
		root := roots[item]
		ms := move.NewStore()
		var ru c16Reusable
		w := &universe.Walker{}
		w.Visit = func(w *universe.Walker, p *refchess.Pos, left int) bool {
			k := n2.Add(1)
			handle(w.B, ms, &ru, func() string { return w.B.FEN() }, len(w.Path) == 0 && item%8 == int(r.Seed%8), rankers, []int{0, 2})
			if k%2000 == 1 {
				r.Sample(map[string]any{"fen": w.B.FEN(), "hash_moves": "0, every generated move, 64 foreign encodings", "rankers": rankers})
			}
			return !r.Expired()
		}
		w.Walk(&root.Pos, eng.Load(&root.Pos), depth)
	})
	// one 3-man class and the ep-bearing KPkp positions (en-passant hash moves)
	type worker struct {
		ld eng.Loader
		ms *move.Store
		ru c16Reusable
	}
	three := []string{"KPk", "KQk", "KRk", "Kkp", "KNk", "KBk"}
	cls := parseClasses(seedPick(three, r.Seed, 1))
	if r.Thorough() {
		forClasses(r, cls, universe.Opts{}, func() *worker { return &worker{ms: move.NewStore()} }, func(w *worker, p *refchess.Pos) {
			handle(w.ld.Load(p), w.ms, &w.ru, p.FEN, false, []string{"fresh"}, []int{0})
		})
	}
	forClasses(r, parseClasses(ev.Pick(r, []string{"KPkp"}, []string{"KPkp", "KRkr", "KPPk"})), universe.Opts{OnlySpecial: true}, func() *worker { return &worker{ms: move.NewStore()} }, func(w *worker, p *refchess.Pos) {
		handle(w.ld.Load(p), w.ms, &w.ru, p.FEN, false, []string{"fresh"}, []int{0})
	})

	// history band: reachability fix-point on the real Add of each table
	band := c16Band(r)

	r.States.Store(positions.Load() + band)
	r.Transitions.Store(runs.Load() + band*65536)
	r.Validated.Store(runs.Load())
	r.Evals.Store(runs.Load() + band*65536)
	r.Nontrivial.Store(hashFirst.Load())
	r.Set("picker_runs", runs.Load())
	r.Set("positions", positions.Load())
	r.Set("positions_with_all_32768_hash_encodings", allEnc.Load())
	r.Set("band_states", band)
	r.Set("rule", "tree nodes below the root corpus and the rights/ep-bearing positions of KPkp and KRkr x hash move in {0} + every generated move + 64 foreign encodings + the near-miss encodings of the position (the four castling encodings, every one- and two-square pawn step in all eight directions with promotion bits 0/1/6/7) (all 32768 encodings on a seed-selected quarter of the roots) x ranker states {fresh, saturated up, saturated down, alternating} produced by real FailHigh calls x history stack {empty, two moves} x picker frame on top of {0, 9, 18} moves of enclosing frames in the move store; oracle: yielded multiset == generated set, hash move first whenever generated, every weight in its band and never a sentinel; band: reachability fix-point over the stored value of each of the three history tables under all 65536 bonuses of the real Add, starting from 0, every reachable value must lie in +-MaxHistory; non-trivial = runs whose hash move is a generated move")
}

// c16Band explores, for each table, the set of stored values reachable from 0
// under every int16 bonus; each state is re-created on a fresh cell by
// replaying its (shortest) update path.
func c16Band(r *ev.Run) int64 {
	type tbl struct {
		name  string
		reset func()
		add   func(cell int, bonus Score)
		get   func(cell int) Score
		cells int
	}
	hist := heur.NewHistory()
	cont := heur.NewContinuation()
	capt := heur.NewCaptHist()
	tables := []tbl{
		{"history", hist.Clear, func(c int, b Score) { hist.Add(Color(c>>12&1), Square(c>>6&63), Square(c&63), b) }, func(c int) Score { return hist.LookUp(Color(c>>12&1), Square(c>>6&63), Square(c&63)) }, 8192},
		{"continuation", cont.Clear, func(c int, b Score) { cont.Add(White, Piece(1+c>>12%6), Square(c>>6&63), Knight, Square(c&63), b) }, func(c int) Score { return cont.LookUp(White, Piece(1+c>>12%6), Square(c>>6&63), Knight, Square(c&63)) }, 6 * 4096},
		{"capthist", capt.Clear, func(c int, b Score) { capt.Add(Piece(1+c>>6%6), Piece(1+c>>9%5), Square(c&63), b) }, func(c int) Score { return capt.LookUp(Piece(1+c>>6%6), Piece(1+c>>9%5), Square(c&63)) }, 64 * 6},
	}
	var total int64
	for _, t := range tables {
		paths := map[Score][]Score{0: nil}
		queue := []Score{0}
		cell := t.cells
		bad := false
		for len(queue) > 0 && !bad {
			v := queue[0]
			queue = queue[1:]
			path := paths[v]
			for bonus := -32768; bonus <= 32767; bonus++ {
				if cell >= t.cells {
					t.reset()
					cell = 0
				}
				for _, p := range path {
					t.add(cell, p)
				}
				t.add(cell, Score(bonus))
				nv := t.get(cell)
				cell++
				if _, seen := paths[nv]; !seen {
					np := append(append([]Score(nil), path...), Score(bonus))
					paths[nv] = np
					queue = append(queue, nv)
					if nv < -heur.MaxHistory || nv > heur.MaxHistory {
						var bs []int
						for _, x := range np {
							bs = append(bs, int(x))
						}
						r.Fail("band/"+t.name, c16Case{Table: t.name, Bonuses: bs}, "%s: updates %v from 0 store %d, outside +-%d", t.name, bs, nv, heur.MaxHistory)
						bad = true
						break
					}
				}
			}
			if len(paths) > 20000 {
				break
			}
		}
		keys := make([]int, 0, len(paths))
		for k := range paths {
			keys = append(keys, int(k))
		}
		sort.Ints(keys)
		r.Set("band_"+t.name, map[string]int{"reachable_values": len(keys), "min": keys[0], "max": keys[len(keys)-1]})
		total += int64(len(paths))
	}
	return total
}

func c16BandReplay(table string, bonuses []int) (Score, bool) {
	var v Score
	switch table {
	case "history":
		h := heur.NewHistory()
		for _, b := range bonuses {
			h.Add(White, E2, E4, Score(b))
		}
		v = h.LookUp(White, E2, E4)
	case "continuation":
		c := heur.NewContinuation()
		for _, b := range bonuses {
			c.Add(White, Knight, F3, Pawn, E4, Score(b))
		}
		v = c.LookUp(White, Knight, F3, Pawn, E4)
	default:
		c := heur.NewCaptHist()
		for _, b := range bonuses {
			c.Add(Knight, Pawn, E4, Score(b))
		}
		v = c.LookUp(Knight, Pawn, E4)
	}
	return v, v < -heur.MaxHistory || v > heur.MaxHistory
}
