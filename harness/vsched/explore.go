package vsched

// Explorer is a stateless depth-first explorer with iterative deviation
// (preemption) bounding and optional global-state-key pruning.
type Explorer struct {
	// Exec runs one execution following choices and returns its outcome.
	// visit must be installed as the scheduler's Visit hook.
	Exec func(choices []int, visit func(key uint64, dev int) bool) Outcome
	// Check judges one complete (not pruned) execution; a non-empty result stops the exploration.
	Check func(choices []int, out Outcome) string
	Bound int
	Prune bool
	// MaxExecs caps the number of executions (0 = none); reaching it sets Capped.
	MaxExecs int
	Stop     func() bool

	seen     map[uint64]int
	Execs    int
	Points   int
	States   int
	PrunedN  int
	Capped   bool
	Failure  string
	FailedAt []int
}

// Run explores everything within the bound. It returns false if a failure was found.
func (e *Explorer) Run() bool {
	e.seen = map[uint64]int{}
	e.explore(nil)
	return e.Failure == ""
}

func (e *Explorer) visit(key uint64, dev int) bool {
	if !e.Prune {
		return true
	}
	if old, ok := e.seen[key]; ok && (old <= dev || e.Bound >= 1<<29) {
		// expanded before with at least as much deviation budget left (with an unbounded budget: expanded before at all)
		return false
	}
	if _, ok := e.seen[key]; !ok {
		e.States++
	}
	e.seen[key] = dev
	return true
}

func (e *Explorer) explore(prefix []int) {
	if e.Failure != "" || e.Capped {
		return
	}
	if (e.MaxExecs > 0 && e.Execs >= e.MaxExecs) || (e.Stop != nil && e.Stop()) {
		e.Capped = true
		return
	}
	out := e.Exec(prefix, e.visit)
	e.Execs++
	e.Points += len(out.Points) - len(prefix)
	choices := make([]int, len(out.Points))
	for i, p := range out.Points {
		choices[i] = p.Chosen
	}
	if out.Diverged != "" {
		e.Failure = "instrument error: replay diverged: " + out.Diverged
		e.FailedAt = choices
		return
	}
	if out.Pruned {
		e.PrunedN++
	} else if msg := e.Check(choices, out); msg != "" {
		e.Failure = msg
		e.FailedAt = choices
		return
	}
	for i := len(prefix); i < len(out.Points); i++ {
		p := out.Points[i]
		for alt := 0; alt < len(p.Enabled); alt++ {
			if alt == p.Chosen {
				continue
			}
			if p.PreBefore+p.Costs[alt] > e.Bound {
				continue
			}
			next := append(append([]int(nil), choices[:i]...), alt)
			e.explore(next)
			if e.Failure != "" || e.Capped {
				return
			}
		}
	}
}
