// Package eng adapts between the reference model and the engine's API.
package eng

import (
	"fmt"
	"sort"

	"github.com/paulsonkoly/chess-3/board"
	"github.com/paulsonkoly/chess-3/move"
	"github.com/paulsonkoly/chess-3/movegen"

	. "github.com/paulsonkoly/chess-3/chess"

	"verif/refchess"
)

// Load builds an engine board from a reference position through the engine's
// own FEN parser (the "loaded from FEN" path of the properties).
func Load(p *refchess.Pos) *board.Board {
	b, err := board.FromFEN(p.FEN())
	if err != nil {
		panic(fmt.Sprintf("engine rejected reference FEN %q: %v", p.FEN(), err))
	}
	return b
}

// Loader loads reference positions into one re-used engine board without
// allocating (board.VerifLoadFEN = ParseFEN + ResetHash).
type Loader struct {
	B   board.Board
	buf []byte
	ms  *move.Store
}

// Store is a move store owned by the loader (one per worker).
func (l *Loader) Store() *move.Store {
	if l.ms == nil {
		l.ms = move.NewStore()
	}
	return l.ms
}

// Load parses p's FEN into the loader's board and returns it. The board is
// overwritten by the next Load.
func (l *Loader) Load(p *refchess.Pos) *board.Board {
	l.buf = p.AppendFEN(l.buf[:0])
	if err := board.VerifLoadFEN(&l.B, l.buf); err != nil {
		panic(fmt.Sprintf("engine rejected reference FEN %q: %v", l.buf, err))
	}
	return &l.B
}

// LoadText parses fen into the loader's board.
func (l *Loader) LoadText(fen string) (*board.Board, error) {
	l.buf = append(l.buf[:0], fen...)
	if err := board.VerifLoadFEN(&l.B, l.buf); err != nil {
		return nil, err
	}
	return &l.B, nil
}

// Generated returns the encodings produced by GenNoisy+GenNotNoisy, in order.
func Generated(ms *move.Store, b *board.Board, out []uint16) []uint16 {
	ms.Push()
	movegen.GenNoisy(ms, b)
	movegen.GenNotNoisy(ms, b)
	for _, m := range ms.Frame() {
		out = append(out, uint16(m.Move))
	}
	ms.Pop()
	return out
}

// Playable returns the engine's playable set: generated moves that do not
// leave the mover's own king attacked (make, InCheck, undo), in generation
// order, duplicates preserved.
func Playable(ms *move.Store, b *board.Board, out []uint16) []uint16 {
	ms.Push()
	movegen.GenNoisy(ms, b)
	movegen.GenNotNoisy(ms, b)
	me := b.STM
	for _, m := range ms.Frame() {
		r := b.MakeMove(m.Move)
		if !b.InCheck(me) {
			out = append(out, uint16(m.Move))
		}
		b.UndoMove(m.Move, r)
	}
	ms.Pop()
	return out
}

// RefLegalEnc returns the sorted encodings of the reference's legal moves.
func RefLegalEnc(p *refchess.Pos, out []uint16) []uint16 {
	var buf [256]refchess.Move
	for _, m := range p.LegalMoves(buf[:0]) {
		out = append(out, m.Enc())
	}
	sort.Slice(out, func(i, j int) bool { return out[i] < out[j] })
	return out
}

// Sorted returns a sorted copy.
func Sorted(a []uint16) []uint16 {
	c := append([]uint16(nil), a...)
	sort.Slice(c, func(i, j int) bool { return c[i] < c[j] })
	return c
}

// EqualSets compares two sorted slices.
func EqualSets(a, b []uint16) bool {
	if len(a) != len(b) {
		return false
	}
	for i := range a {
		if a[i] != b[i] {
			return false
		}
	}
	return true
}

// MoveNames renders encodings for messages.
func MoveNames(a []uint16) []string {
	out := make([]string, len(a))
	for i, e := range a {
		out[i] = move.Move(e).String()
	}
	return out
}

// PosOf reads an engine board into a reference position. The engine's
// en-passant convention (0 = none) is translated; the full move number is
// taken from the verif hook.
func PosOf(b *board.Board) refchess.Pos {
	var p refchess.Pos
	for s := 0; s < 64; s++ {
		k := int8(b.SquaresToPiece[s])
		if k == 0 {
			continue
		}
		if b.Colors[Black]&(1<<uint(s)) != 0 {
			k = -k
		}
		p.Sq[s] = k
	}
	p.Stm = int8(b.STM)
	p.Castle = uint8(b.Castles)
	p.Ep = -1
	if b.EnPassant != 0 {
		p.Ep = int8(b.EnPassant)
	}
	p.Half = int(b.FiftyCnt)
	p.Full = b.VerifFullMoves()
	return p
}

// Name renders any 15-bit encoding (also those whose promotion bits name no
// piece, on which the engine's own String panics).
func Name(e uint16) string {
	m := refchess.Dec(e)
	s := refchess.SqName(int(m.From)) + refchess.SqName(int(m.To))
	if m.Promo != 0 {
		s += string("?pnbrqk?"[m.Promo])
	}
	return s
}
