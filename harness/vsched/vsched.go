// Package vsched is a cooperative scheduler for systematic exploration of
// the interleavings of goroutine programs whose synchronisation operations
// have been redirected to it (by harness/instr, through go build -overlay).
//
// Every controlled thread is a real goroutine, but exactly one of them runs
// at any time: a thread that reaches an operation publishes it, hands control
// to the scheduler and parks. The scheduler computes which parked operations
// are enabled from its own model of channels, wait groups, pools, timers and
// the environment (scripted input, recorded output), picks one according to
// the current choice list, applies its effect and resumes that thread.
//
// Native channel values are only identities: nothing is ever sent on them.
package vsched

import (
	"fmt"
	"hash/fnv"
	"reflect"
	"runtime"
	"sort"
	"strings"
	"sync"
	"time"
)

type opKind int

const (
	opStart  opKind = iota // thread created, not yet run
	opResume               // rendezvous partner completed: just continue
	opSend
	opRecv
	opClose
	opSelect
	opWGWait
	opSpawn
	opPoolGet
	opPoolPut
	opTimerNew
	opTimerStop
	opEnv // environment operation with an enabledness guard
	opYield
	opLock
	opUnlock
	opRLock
	opRUnlock
)

var opNames = [...]string{"start", "resume", "send", "recv", "close", "select", "wgwait", "spawn", "poolget", "poolput", "timernew", "timerstop", "env", "yield", "lock", "unlock", "rlock", "runlock"}

type chanModel struct {
	id     int
	cap    int
	buf    []any
	closed bool
	timer  *timerModel
	name   string
	ref    any // keeps the native channel alive: its address is the identity and must not be re-used within an execution
}

type timerModel struct {
	id     int
	d      time.Duration
	armed  time.Time
	active bool
	fired  bool
	ch     *chanModel
}

type lockModel struct {
	id      int
	writer  bool
	readers int
}

type selCase struct {
	ch *chanModel // nil = nil channel (never ready)
}

type op struct {
	kind  opKind
	ch    *chanModel
	val   any
	cases []selCase
	def   bool
	wg    *sync.WaitGroup
	pool  *sync.Pool
	env   *EnvOp
	fn    func()
	tm    *timerModel
	mu    any // *sync.Mutex or *sync.RWMutex (identity)
	// results
	rval  any
	rok   bool
	rcase int
	done  bool // completed by a partner (unbuffered send taken by a receiver)
}

// EnvOp is an environment operation (input read, output write, ...).
type EnvOp struct {
	Name    string
	Enabled func() bool // nil = always
	Do      func() any  // executed by the scheduler when chosen
	// Alts is the number of alternative environment answers (deviations) besides the default; Do receives the choice through Alt.
	Alts int
	Alt  int
}

type thread struct {
	id      int
	name    string
	wake    chan struct{}
	pending *op
	done    bool
	killed  bool
	obs     uint64 // hash chain of this thread's observations
	panicV  any
	panicS  string
}

type killSentinel struct{}

// Point is one scheduling point of an execution.
type Point struct {
	Enabled        []int // ids of the alternatives in canonical order (thread ids; timers are negative ids)
	Costs          []int // deviation cost (0 or 1) of each alternative: a preemption, or a non-default environment answer
	PreBefore      int   // deviations used before this point
	Chosen         int   // index into Enabled
	Running        int   // thread id that was running before the point (-1 none)
	RunningEnabled bool
	Key            uint64
}

// Outcome of one execution.
type Outcome struct {
	Points   []Point
	Deadlock bool
	Panic    string
	Horizon  bool
	Spin     string // a thread ran without reaching a scheduling point for the watchdog period
	Pruned   bool   // stopped at an already expanded state
	Diverged string
	Threads  []string // names of unfinished threads at the end
}

// Sched is one execution under control.
type Sched struct {
	threads  []*thread
	chans    map[uintptr]*chanModel
	chanList []*chanModel
	wgs      map[*sync.WaitGroup]int
	wgIDs    map[*sync.WaitGroup]int
	pools    map[*sync.Pool][]any
	poolIDs  map[*sync.Pool]int
	timers   []*timerModel
	locks    map[any]*lockModel
	lockList []*lockModel
	timerOf  map[*time.Timer]*timerModel
	now      time.Time
	cur      *thread
	yield    chan *thread
	choices  []int
	pos      int
	out      Outcome
	horizon  int
	// StateExtra is hashed into the state key (script cursor, output so far ...).
	StateExtra func() string
	// Visit is called at every scheduling point beyond the replayed prefix with the state key and the number of
	// preemptions used so far; returning false prunes the execution.
	Visit        func(key uint64, preemptions int) bool
	preempt      int
	mainDone     bool
	mu           sync.Mutex
	PoolEmptyAlt bool // explore "pool returns nothing although it holds a buffer"
	trace        []string
	Trace        bool
}

// Watchdog is how long a thread may run between two scheduling points before the execution is
// declared spinning (generous: steps of the code under test take microseconds).
var Watchdog = 30 * time.Second

// Cur is the scheduler controlling the current execution (nil = native mode).
var Cur *Sched

// Solo is the fault-plan mode: no threads, polls answered by SoloPoll.
var Solo *SoloPlan

func chanPtr(c any) uintptr {
	v := reflect.ValueOf(c)
	if v.Kind() != reflect.Chan || v.IsNil() {
		return 0
	}
	return v.Pointer()
}

func (s *Sched) model(c any) *chanModel {
	p := chanPtr(c)
	if p == 0 {
		return nil
	}
	m := s.chans[p]
	if m == nil {
		m = &chanModel{id: len(s.chanList), cap: reflect.ValueOf(c).Cap(), ref: c}
		s.chans[p] = m
		s.chanList = append(s.chanList, m)
	}
	return m
}

// ---- thread side ------------------------------------------------------------

func (s *Sched) submit(o *op) {
	t := s.cur
	t.pending = o
	s.yield <- t
	<-t.wake
	if t.killed {
		panic(killSentinel{})
	}
}

func fold(h uint64, parts ...any) uint64 {
	f := fnv.New64a()
	fmt.Fprintf(f, "%x|", h)
	for _, p := range parts {
		fmt.Fprintf(f, "%v|", p)
	}
	return f.Sum64()
}

func valKey(v any) string {
	switch x := v.(type) {
	case nil:
		return "nil"
	case *[]byte:
		if x == nil {
			return "nilbuf"
		}
		return "buf:" + string(*x)
	case []byte:
		return "bytes:" + string(x)
	case time.Time:
		return "t" + fmt.Sprint(x.UnixNano())
	case string:
		return "s:" + x
	case struct{}:
		return "{}"
	}
	return fmt.Sprintf("%T:%v", v, v)
}

// Reg registers a freshly made channel (canonical ids by creation order).
func Reg[C any](c C) C {
	if s := Cur; s != nil {
		s.model(c)
	}
	return c
}

// Send is `ch <- v`.
func Send[T any](ch chan<- T, v T) {
	s := Cur
	if s == nil {
		ch <- v
		return
	}
	m := s.model(ch)
	if m == nil {
		s.submit(&op{kind: opRecv}) // send on nil channel blocks forever: model as a never-enabled op
		return
	}
	s.submit(&op{kind: opSend, ch: m, val: v})
}

// Recv is `<-ch`.
func Recv[T any](ch <-chan T) T {
	v, _ := Recv2(ch)
	return v
}

// Recv2 is `v, ok := <-ch`.
func Recv2[T any](ch <-chan T) (T, bool) {
	s := Cur
	if s == nil {
		v, ok := <-ch
		return v, ok
	}
	o := &op{kind: opRecv, ch: s.model(ch)}
	s.submit(o)
	var zero T
	if o.rval == nil {
		return zero, o.rok
	}
	return o.rval.(T), o.rok
}

// Close is close(ch).
func Close[T any](ch chan<- T) {
	s := Cur
	if s == nil {
		close(ch)
		return
	}
	if s.cur.killed {
		return
	}
	s.submit(&op{kind: opClose, ch: s.model(ch)})
}

// Select performs a select over receive cases. It returns the index of the
// chosen case (-1 = default), the received value and ok.
func Select(hasDefault bool, chans ...any) (int, any, bool) {
	s := Cur
	if s == nil {
		if Solo != nil {
			return Solo.selectSolo(hasDefault, chans)
		}
		// native fallback through reflection
		cases := make([]reflect.SelectCase, 0, len(chans)+1)
		for _, c := range chans {
			cases = append(cases, reflect.SelectCase{Dir: reflect.SelectRecv, Chan: reflect.ValueOf(c)})
		}
		if hasDefault {
			cases = append(cases, reflect.SelectCase{Dir: reflect.SelectDefault})
		}
		i, v, ok := reflect.Select(cases)
		if hasDefault && i == len(chans) {
			return -1, nil, false
		}
		if !ok {
			return i, nil, false
		}
		return i, v.Interface(), ok
	}
	o := &op{kind: opSelect, def: hasDefault}
	for _, c := range chans {
		o.cases = append(o.cases, selCase{ch: s.model(c)})
	}
	s.submit(o)
	return o.rcase, o.rval, o.rok
}

// As converts a value received through Select.
func As[T any](v any) T {
	var zero T
	if v == nil {
		return zero
	}
	return v.(T)
}

// WGGo is wg.Go(f).
func WGGo(wg *sync.WaitGroup, f func()) {
	s := Cur
	if s == nil {
		wg.Go(f)
		return
	}
	s.wgs[wg]++
	if _, ok := s.wgIDs[wg]; !ok {
		s.wgIDs[wg] = len(s.wgIDs)
	}
	s.submit(&op{kind: opSpawn, fn: func() {
		defer func() { s.wgs[wg]-- }()
		f()
	}})
}

// Go is `go f()`.
func Go(f func()) {
	s := Cur
	if s == nil {
		go f()
		return
	}
	s.submit(&op{kind: opSpawn, fn: f})
}

// WGWait is wg.Wait().
func WGWait(wg *sync.WaitGroup) {
	s := Cur
	if s == nil {
		wg.Wait()
		return
	}
	s.submit(&op{kind: opWGWait, wg: wg})
}

// PoolGet is p.Get().
func PoolGet(p *sync.Pool) any {
	s := Cur
	if s == nil {
		return p.Get()
	}
	o := &op{kind: opPoolGet, pool: p}
	s.submit(o)
	return o.rval
}

// PoolPut is p.Put(x).
func PoolPut(p *sync.Pool, x any) {
	s := Cur
	if s == nil {
		p.Put(x)
		return
	}
	s.submit(&op{kind: opPoolPut, pool: p, val: x})
}

func (s *Sched) lock(m any) *lockModel {
	l := s.locks[m]
	if l == nil {
		l = &lockModel{id: len(s.lockList)}
		s.locks[m] = l
		s.lockList = append(s.lockList, l)
	}
	return l
}

// Lock is m.Lock() for *sync.Mutex and *sync.RWMutex.
func Lock(m sync.Locker) {
	s := Cur
	if s == nil {
		m.Lock()
		return
	}
	s.submit(&op{kind: opLock, mu: m})
}

// Unlock is m.Unlock().
func Unlock(m sync.Locker) {
	s := Cur
	if s == nil {
		m.Unlock()
		return
	}
	if s.cur.killed {
		return
	}
	s.submit(&op{kind: opUnlock, mu: m})
}

// RLock is m.RLock().
func RLock(m *sync.RWMutex) {
	s := Cur
	if s == nil {
		m.RLock()
		return
	}
	s.submit(&op{kind: opRLock, mu: sync.Locker(m)})
}

// RUnlock is m.RUnlock().
func RUnlock(m *sync.RWMutex) {
	s := Cur
	if s == nil {
		m.RUnlock()
		return
	}
	if s.cur.killed {
		return
	}
	s.submit(&op{kind: opRUnlock, mu: sync.Locker(m)})
}

// NewTimer is time.NewTimer(d): a real timer that never fires natively; the
// model timer fires when the scheduler chooses so.
func NewTimer(d time.Duration) *time.Timer {
	s := Cur
	if s == nil {
		if Solo != nil {
			t := time.NewTimer(time.Hour * 1000)
			Solo.Timers = append(Solo.Timers, d)
			return t
		}
		return time.NewTimer(d)
	}
	t := time.NewTimer(time.Hour * 1000)
	t.Stop()
	tm := &timerModel{id: len(s.timers), d: d, armed: s.now, active: true}
	tm.ch = s.model(t.C)
	tm.ch.timer = tm
	tm.ch.cap = 1
	s.timers = append(s.timers, tm)
	s.timerOf[t] = tm
	s.submit(&op{kind: opTimerNew, tm: tm})
	return t
}

// After is time.After(d): a timer that is never stopped.
func After(d time.Duration) <-chan time.Time { return NewTimer(d).C }

// TimerStop is t.Stop().
func TimerStop(t *time.Timer) bool {
	s := Cur
	if s == nil {
		return t.Stop()
	}
	if s.cur.killed {
		return false
	}
	tm := s.timerOf[t]
	o := &op{kind: opTimerStop, tm: tm}
	s.submit(o)
	return o.rok
}

// Now is time.Now() on the virtual clock.
func Now() time.Time {
	if s := Cur; s != nil {
		return s.now
	}
	if Solo != nil {
		return Solo.Now
	}
	return time.Now()
}

// Until is time.Until(t) on the virtual clock.
func Until(t time.Time) time.Duration { return t.Sub(Now()) }

// Advance moves the virtual clock of the execution forward (called from environment operations).
func (s *Sched) Advance(d time.Duration) { s.now = s.now.Add(d) }

// Since is time.Since(t) on the virtual clock.
func Since(t time.Time) time.Duration { return Now().Sub(t) }

// Env performs an environment operation (a scheduling point with a guard).
func Env(e *EnvOp) any {
	s := Cur
	if s == nil {
		return e.Do()
	}
	o := &op{kind: opEnv, env: e}
	s.submit(o)
	return o.rval
}

// Yield is a pure scheduling point.
func Yield() {
	if s := Cur; s != nil {
		s.submit(&op{kind: opYield})
	}
}

// ---- scheduler side ---------------------------------------------------------

// New creates a scheduler that will follow choices and then always take
// alternative 0.
func New(choices []int, horizon int) *Sched {
	return &Sched{chans: map[uintptr]*chanModel{}, wgs: map[*sync.WaitGroup]int{}, wgIDs: map[*sync.WaitGroup]int{}, pools: map[*sync.Pool][]any{}, poolIDs: map[*sync.Pool]int{},
		timerOf: map[*time.Timer]*timerModel{}, locks: map[any]*lockModel{}, yield: make(chan *thread), choices: choices, horizon: horizon, now: time.Unix(1_000_000, 0)}
}

func (s *Sched) spawn(name string, f func()) *thread {
	t := &thread{id: len(s.threads), name: name, wake: make(chan struct{}), pending: &op{kind: opStart}}
	s.threads = append(s.threads, t)
	go func() {
		<-t.wake
		defer func() {
			if e := recover(); e != nil {
				if _, ok := e.(killSentinel); !ok {
					buf := make([]byte, 1<<12)
					t.panicV = e
					t.panicS = string(buf[:runtime.Stack(buf, false)])
				}
			}
			t.done = true
			t.pending = nil
			s.yield <- t
		}()
		if !t.killed {
			f()
		}
	}()
	return t
}

func (s *Sched) senderOn(m *chanModel) *thread {
	for _, t := range s.threads {
		if !t.done && t.pending != nil && t.pending.kind == opSend && !t.pending.done && t.pending.ch == m {
			return t
		}
	}
	return nil
}

func (s *Sched) recvReady(m *chanModel) bool {
	if m == nil {
		return false
	}
	if len(m.buf) > 0 || m.closed {
		return true
	}
	return m.cap == 0 && s.senderOn(m) != nil
}

func (s *Sched) enabled(t *thread) bool {
	o := t.pending
	if o == nil || t.done {
		return false
	}
	switch o.kind {
	case opStart, opResume, opClose, opSpawn, opPoolGet, opPoolPut, opTimerNew, opTimerStop, opYield:
		return true
	case opSend:
		if o.done {
			return true
		}
		if o.ch.closed {
			return true // will panic, as in Go
		}
		return o.ch.cap > 0 && len(o.ch.buf) < o.ch.cap
	case opRecv:
		return s.recvReady(o.ch)
	case opSelect:
		if o.def {
			return true
		}
		for _, c := range o.cases {
			if s.recvReady(c.ch) {
				return true
			}
		}
		return false
	case opWGWait:
		return s.wgs[o.wg] == 0
	case opEnv:
		return o.env.Enabled == nil || o.env.Enabled()
	case opLock:
		l := s.lock(o.mu)
		return !l.writer && l.readers == 0
	case opRLock:
		return !s.lock(o.mu).writer
	case opUnlock, opRUnlock:
		return true
	}
	return false
}

// take removes a value from channel m for a receiver.
func (s *Sched) take(m *chanModel) (any, bool) {
	if len(m.buf) > 0 {
		v := m.buf[0]
		m.buf = m.buf[1:]
		// a sender blocked on the full buffer can now proceed by itself
		return v, true
	}
	if m.cap == 0 {
		if snd := s.senderOn(m); snd != nil {
			snd.pending.done = true
			return snd.pending.val, true
		}
	}
	return nil, false // closed
}

// perform applies the effect of t's pending operation. alt is the
// alternative index for operations with internal choices.
func (s *Sched) perform(t *thread, alt int) {
	o := t.pending
	switch o.kind {
	case opSend:
		if o.done {
			t.obs = fold(t.obs, "send", o.ch.id)
			return
		}
		if o.ch.closed {
			t.killed = true
			t.panicV = "send on closed channel"
			return
		}
		o.ch.buf = append(o.ch.buf, o.val)
		t.obs = fold(t.obs, "send", o.ch.id)
	case opRecv:
		o.rval, o.rok = s.take(o.ch)
		t.obs = fold(t.obs, "recv", o.ch.id, valKey(o.rval), o.rok)
	case opClose:
		if o.ch == nil || o.ch.closed {
			t.killed = true
			t.panicV = "close of closed or nil channel"
			return
		}
		o.ch.closed = true
		t.obs = fold(t.obs, "close", o.ch.id)
	case opSelect:
		var ready []int
		for i, c := range o.cases {
			if s.recvReady(c.ch) {
				ready = append(ready, i)
			}
		}
		if len(ready) == 0 {
			o.rcase = -1
			t.obs = fold(t.obs, "sel", -1)
			return
		}
		i := ready[alt%len(ready)]
		o.rcase = i
		o.rval, o.rok = s.take(o.cases[i].ch)
		t.obs = fold(t.obs, "sel", o.cases[i].ch.id, valKey(o.rval), o.rok)
	case opWGWait:
		t.obs = fold(t.obs, "wait")
	case opSpawn:
		nt := s.spawn(fmt.Sprintf("%s.%d", t.name, len(s.threads)), o.fn)
		_ = nt
		t.obs = fold(t.obs, "spawn")
	case opPoolGet:
		items := s.pools[o.pool]
		if _, ok := s.poolIDs[o.pool]; !ok {
			s.poolIDs[o.pool] = len(s.poolIDs)
		}
		if len(items) == 0 || alt == 1 {
			o.rval = nil
			t.obs = fold(t.obs, "poolget", "empty")
			return
		}
		o.rval = items[len(items)-1]
		s.pools[o.pool] = items[:len(items)-1]
		t.obs = fold(t.obs, "poolget", valKey(o.rval))
	case opPoolPut:
		if _, ok := s.poolIDs[o.pool]; !ok {
			s.poolIDs[o.pool] = len(s.poolIDs)
		}
		s.pools[o.pool] = append(s.pools[o.pool], o.val)
		t.obs = fold(t.obs, "poolput")
	case opTimerNew:
		t.obs = fold(t.obs, "timer", int64(o.tm.d))
	case opTimerStop:
		o.rok = o.tm != nil && o.tm.active && !o.tm.fired
		if o.tm != nil {
			o.tm.active = false
		}
		t.obs = fold(t.obs, "tstop", o.rok)
	case opEnv:
		o.env.Alt = alt
		o.rval = o.env.Do()
		t.obs = fold(t.obs, "env", o.env.Name, valKey(o.rval))
	case opLock:
		s.lock(o.mu).writer = true
		t.obs = fold(t.obs, "lock", s.lock(o.mu).id)
	case opUnlock:
		l := s.lock(o.mu)
		if !l.writer {
			t.killed = true
			t.panicV = "unlock of unlocked mutex"
			return
		}
		l.writer = false
		t.obs = fold(t.obs, "unlock", l.id)
	case opRLock:
		s.lock(o.mu).readers++
		t.obs = fold(t.obs, "rlock", s.lock(o.mu).id)
	case opRUnlock:
		l := s.lock(o.mu)
		if l.readers == 0 {
			t.killed = true
			t.panicV = "RUnlock of unlocked RWMutex"
			return
		}
		l.readers--
		t.obs = fold(t.obs, "runlock", l.id)
	case opStart, opResume, opYield:
	}
}

// alternatives of one thread's pending op (internal nondeterminism)
func (s *Sched) alts(t *thread) int {
	o := t.pending
	switch o.kind {
	case opSelect:
		n := 0
		for _, c := range o.cases {
			if s.recvReady(c.ch) {
				n++
			}
		}
		return max(n, 1)
	case opPoolGet:
		if s.PoolEmptyAlt && len(s.pools[o.pool]) > 0 {
			return 2
		}
	case opEnv:
		return 1 + o.env.Alts
	}
	return 1
}

func (s *Sched) stateKey() uint64 {
	var sb strings.Builder
	for _, t := range s.threads {
		k := opKind(-1)
		if t.pending != nil {
			k = t.pending.kind
		}
		fmt.Fprintf(&sb, "T%d:%x:%v:%d;", t.id, t.obs, t.done, k)
	}
	for _, m := range s.chanList {
		fmt.Fprintf(&sb, "C%d:%v:", m.id, m.closed)
		for _, v := range m.buf {
			sb.WriteString(valKey(v))
			sb.WriteByte(',')
		}
		sb.WriteByte(';')
	}
	type kv struct{ id, n int }
	var ws []kv
	for wg, n := range s.wgs {
		ws = append(ws, kv{s.wgIDs[wg], n})
	}
	sort.Slice(ws, func(i, j int) bool { return ws[i].id < ws[j].id })
	for _, w := range ws {
		fmt.Fprintf(&sb, "W%d:%d;", w.id, w.n)
	}
	var ps []string
	for p, items := range s.pools {
		var b strings.Builder
		fmt.Fprintf(&b, "P%d:", s.poolIDs[p])
		for _, it := range items {
			b.WriteString(valKey(it))
			b.WriteByte(',')
		}
		ps = append(ps, b.String())
	}
	sort.Strings(ps)
	sb.WriteString(strings.Join(ps, ";"))
	for _, tm := range s.timers {
		fmt.Fprintf(&sb, "M%d:%v:%v;", tm.id, tm.active, tm.fired)
	}
	for _, l := range s.lockList {
		fmt.Fprintf(&sb, "L%d:%v:%d;", l.id, l.writer, l.readers)
	}
	fmt.Fprintf(&sb, "now%d;", s.now.UnixNano())
	if s.cur != nil {
		fmt.Fprintf(&sb, "R%d;", s.cur.id)
	}
	if s.StateExtra != nil {
		sb.WriteString(s.StateExtra())
	}
	f := fnv.New64a()
	f.Write([]byte(sb.String()))
	return f.Sum64()
}

// Run executes main as thread 0 under the scheduler and returns the outcome.
func (s *Sched) Run(main func()) Outcome {
	Cur = s
	defer func() { Cur = nil }()
	s.spawn("main", main)
	running := -1
	steps := 0
	for {
		// collect alternatives: (thread, alt) pairs, current thread first
		type choice struct {
			t     *thread
			alt   int
			timer *timerModel
		}
		var list []choice
		add := func(t *thread) {
			if s.enabled(t) {
				for a := 0; a < s.alts(t); a++ {
					list = append(list, choice{t: t, alt: a})
				}
			}
		}
		var curT *thread
		if running >= 0 {
			curT = s.threads[running]
			add(curT)
		}
		runningEnabled := len(list) > 0
		for _, t := range s.threads {
			if t != curT {
				add(t)
			}
		}
		for _, tm := range s.timers {
			if tm.active && !tm.fired {
				list = append(list, choice{timer: tm})
			}
		}
		unfinished := 0
		for _, t := range s.threads {
			if !t.done {
				unfinished++
			}
		}
		if unfinished == 0 {
			break
		}
		// only timers left and nobody else can move: let a timer fire (it is an enabled alternative);
		// if nothing at all is enabled: deadlock
		if len(list) == 0 {
			s.out.Deadlock = true
			break
		}
		steps++
		if steps > s.horizon {
			s.out.Horizon = true
			break
		}
		ix := 0
		replaying := s.pos < len(s.choices)
		if replaying {
			ix = s.choices[s.pos]
			if ix >= len(list) {
				s.out.Diverged = fmt.Sprintf("choice %d at point %d out of range (%d alternatives)", ix, s.pos, len(list))
				break
			}
		}
		pt := Point{Chosen: ix, Running: running, RunningEnabled: runningEnabled, PreBefore: s.preempt}
		for _, c := range list {
			cost := 0
			if c.timer != nil {
				pt.Enabled = append(pt.Enabled, -1-c.timer.id)
				if runningEnabled {
					cost = 1
				}
			} else {
				pt.Enabled = append(pt.Enabled, c.t.id*8+c.alt)
				// preemption: switching away from a runnable thread; deviation: a non-default environment answer
				if runningEnabled && c.t != curT {
					cost = 1
				}
				if c.alt > 0 && (c.t.pending.kind == opEnv || c.t.pending.kind == opPoolGet) {
					cost = 1
				}
			}
			pt.Costs = append(pt.Costs, cost)
		}
		ch := list[ix]
		s.preempt += pt.Costs[ix]
		s.pos++
		if ch.timer != nil {
			// timer fires: virtual time advances, value buffered on its channel
			ch.timer.fired = true
			ch.timer.active = false
			if due := ch.timer.armed.Add(ch.timer.d); due.After(s.now) {
				s.now = due
			}
			ch.timer.ch.buf = append(ch.timer.ch.buf, s.now)
			if s.Trace {
				s.trace = append(s.trace, fmt.Sprintf("timer%d fires", ch.timer.id))
			}
			s.out.Points = append(s.out.Points, pt)
			if !s.visit() {
				break
			}
			continue
		}
		t := ch.t
		s.cur = t
		if s.Trace {
			s.trace = append(s.trace, fmt.Sprintf("%s %s alt %d", t.name, opNames[t.pending.kind], ch.alt))
		}
		s.perform(t, ch.alt)
		s.out.Points = append(s.out.Points, pt)
		running = t.id
		// let it run to its next operation (or to its end)
		t.wake <- struct{}{}
		select {
		case <-s.yield:
		case <-time.After(Watchdog):
			// the thread computes without ever reaching an operation: it cannot be parked or unwound
			s.out.Spin = fmt.Sprintf("thread %s ran for %v without reaching a scheduling point after %s", t.name, Watchdog, opNames[t.pending.kind])
			s.out.Points = append([]Point(nil), s.out.Points...)
			return s.out
		}
		if t.panicV != nil {
			s.out.Panic = fmt.Sprintf("thread %s: %v\n%s", t.name, t.panicV, t.panicS)
			break
		}
		if t.done {
			running = -1
		}
		if !s.visit() {
			break
		}
	}
	for _, t := range s.threads {
		if !t.done {
			s.out.Threads = append(s.out.Threads, fmt.Sprintf("%s(%s)", t.name, pendName(t)))
		}
	}
	s.killAll()
	return s.out
}

func pendName(t *thread) string {
	if t.pending == nil {
		return "?"
	}
	n := opNames[t.pending.kind]
	if t.pending.ch != nil {
		n += fmt.Sprintf(" ch%d", t.pending.ch.id)
	}
	if t.pending.env != nil {
		n += " " + t.pending.env.Name
	}
	return n
}

func (s *Sched) visit() bool {
	if s.pos < len(s.choices) || s.Visit == nil {
		return true
	}
	if !s.Visit(s.stateKey(), s.preempt) {
		s.out.Pruned = true
		return false
	}
	return true
}

// killAll unwinds every parked thread.
func (s *Sched) killAll() {
	for {
		var t *thread
		for _, x := range s.threads {
			if !x.done {
				t = x
				break
			}
		}
		if t == nil {
			return
		}
		t.killed = true
		s.cur = t
		t.wake <- struct{}{}
		for {
			y := <-s.yield
			if y.done {
				break
			}
			// it reached another operation while unwinding (deferred code): kill again
			y.killed = true
			y.wake <- struct{}{}
		}
	}
}

// TimerDurations lists the durations of all timers created in this execution, in creation order.
func (s *Sched) TimerDurations() []time.Duration {
	var out []time.Duration
	for _, tm := range s.timers {
		out = append(out, tm.d)
	}
	return out
}

// TimerArm is one timer creation: the virtual time it was armed at and its duration.
type TimerArm struct {
	At time.Time
	D  time.Duration
}

// TimerArms lists all timers created in this execution, in creation order.
func (s *Sched) TimerArms() []TimerArm {
	var out []TimerArm
	for _, tm := range s.timers {
		out = append(out, TimerArm{tm.armed, tm.d})
	}
	return out
}

// VNow is the virtual clock of the execution.
func (s *Sched) VNow() time.Time { return s.now }

// Preemptions used so far.
func (s *Sched) Preemptions() int { return s.preempt }

// TraceLines returns the operation trace (when Trace is set).
func (s *Sched) TraceLines() []string { return s.trace }
