package checks

import (
	"encoding/json"
	"fmt"
	"math/bits"
	"sync/atomic"

	"github.com/paulsonkoly/chess-3/attacks"
	. "github.com/paulsonkoly/chess-3/chess"

	"verif/ev"
)

// C12 — attack tables equal ray-walking geometry, over the whole finite space.

type c12Case struct {
	Func string `json:"func"`
	Sq   int    `json:"square"`
	Sq2  int    `json:"square2,omitempty"`
	Occ  uint64 `json:"occupancy"`
	Col  int    `json:"colour,omitempty"`
}

// walk returns the squares reached from sq along the given directions, up to
// and including the first occupied square. Coordinates, not bit tricks.
func c12Walk(sq int, occ uint64, dirs [][2]int) uint64 {
	var res uint64
	f0, r0 := sq%8, sq/8
	for _, d := range dirs {
		f, r := f0+d[0], r0+d[1]
		for f >= 0 && f < 8 && r >= 0 && r < 8 {
			s := uint(r*8 + f)
			res |= 1 << s
			if occ&(1<<s) != 0 {
				break
			}
			f += d[0]
			r += d[1]
		}
	}
	return res
}

var c12Rook = [][2]int{{1, 0}, {-1, 0}, {0, 1}, {0, -1}}
var c12Bishop = [][2]int{{1, 1}, {1, -1}, {-1, 1}, {-1, -1}}

func c12Leaper(sq int, ds [][2]int) uint64 {
	var res uint64
	for _, d := range ds {
		f, r := sq%8+d[0], sq/8+d[1]
		if f >= 0 && f < 8 && r >= 0 && r < 8 {
			res |= 1 << uint(r*8+f)
		}
	}
	return res
}

func c12Eval(c c12Case) (got, want uint64) {
	switch c.Func {
	case "RookMoves":
		return uint64(attacks.RookMoves(Square(c.Sq), BitBoard(c.Occ))), c12Walk(c.Sq, c.Occ, c12Rook)
	case "BishopMoves":
		return uint64(attacks.BishopMoves(Square(c.Sq), BitBoard(c.Occ))), c12Walk(c.Sq, c.Occ, c12Bishop)
	case "KingMoves":
		return uint64(attacks.KingMoves(Square(c.Sq))), c12Leaper(c.Sq, [][2]int{{1, 0}, {1, 1}, {0, 1}, {-1, 1}, {-1, 0}, {-1, -1}, {0, -1}, {1, -1}})
	case "KnightMoves":
		return uint64(attacks.KnightMoves(Square(c.Sq))), c12Leaper(c.Sq, [][2]int{{1, 2}, {2, 1}, {2, -1}, {1, -2}, {-1, -2}, {-2, -1}, {-2, 1}, {-1, 2}})
	case "PawnCaptureMoves":
		var want uint64
		dr := 1
		if c.Col == 1 {
			dr = -1
		}
		for s := 0; s < 64; s++ {
			if c.Occ&(1<<uint(s)) != 0 {
				want |= c12Leaper(s, [][2]int{{-1, dr}, {1, dr}})
			}
		}
		return uint64(attacks.PawnCaptureMoves(BitBoard(c.Occ), Color(c.Col))), want
	case "PawnSinglePushMoves":
		var want uint64
		dr := 1
		if c.Col == 1 {
			dr = -1
		}
		for s := 0; s < 64; s++ {
			if c.Occ&(1<<uint(s)) != 0 {
				want |= c12Leaper(s, [][2]int{{0, dr}})
			}
		}
		return uint64(attacks.PawnSinglePushMoves(BitBoard(c.Occ), Color(c.Col))), want
	case "InBetween":
		a, b := c.Sq, c.Sq2
		ends := uint64(1)<<uint(a) | uint64(1)<<uint(b)
		var want uint64
		df, dr := b%8-a%8, b/8-a/8
		if a != b && (df == 0 || dr == 0 || df == dr || df == -dr) {
			sf, sr := sign(df), sign(dr)
			f, r := a%8+sf, a/8+sr
			for f != b%8 || r != b/8 {
				want |= 1 << uint(r*8+f)
				f += sf
				r += sr
			}
		}
		return uint64(attacks.InBetween[a][b]) &^ ends, want
	}
	panic("bad func " + c.Func)
}

func sign(x int) int {
	switch {
	case x < 0:
		return -1
	case x > 0:
		return 1
	}
	return 0
}

func c12Replay(class string, raw json.RawMessage) (bool, string) {
	var c c12Case
	if err := json.Unmarshal(raw, &c); err != nil {
		return false, err.Error()
	}
	got, want := c12Eval(c)
	if got != want {
		return true, fmt.Sprintf("%s(sq=%d, occ=%016x): table %016x, geometry %016x", c.Func, c.Sq, c.Occ, got, want)
	}
	return false, "table equals geometry"
}

func init() {
	register(&Check{ID: "C12", Level: "model_checking", Run: runC12, Replay: c12Replay})
}

func runC12(r *ev.Run) {
	var lookups, subsets, offRay atomic.Int64
	test := func(c c12Case) {
		lookups.Add(1)
		got, want := c12Eval(c)
		if got != want {
			r.Fail(c.Func, c, "%s(sq=%d sq2=%d colour=%d occ=%016x): table %016x, geometry %016x", c.Func, c.Sq, c.Sq2, c.Col, c.Occ, got, want)
		}
	}
	// sliders: every square x every subset of the FULL ray set (edges
	// included) + for every subset an off-ray perturbation (masking obligation)
	ev.Parallel(128, func(worker, item int) {
		sq := item % 64
		fn, dirs := "RookMoves", c12Rook
		if item >= 64 {
			fn, dirs = "BishopMoves", c12Bishop
		}
		rays := c12Walk(sq, 0, dirs)
		off := ^rays &^ (uint64(1) << uint(sq))
		sub := uint64(0)
		i := 0
		for {
			subsets.Add(1)
			test(c12Case{Func: fn, Sq: sq, Occ: sub})
			// masking obligation: squares off the rays (and the square itself) never matter
			test(c12Case{Func: fn, Sq: sq, Occ: sub | off})
			test(c12Case{Func: fn, Sq: sq, Occ: sub | uint64(1)<<uint(sq)})
			// one single off-ray bit, rotating through all of them
			ob := off
			for k := i % bits.OnesCount64(off); k > 0; k-- {
				ob &= ob - 1
			}
			test(c12Case{Func: fn, Sq: sq, Occ: sub | (ob & -ob)})
			offRay.Add(3)
			i++
			sub = (sub - rays) & rays
			if sub == 0 {
				break
			}
		}
		if sq == 27 {
			r.Sample(map[string]any{"func": fn, "square": sq, "subsets_of_full_rays": i})
		}
	})
	for sq := 0; sq < 64; sq++ {
		test(c12Case{Func: "KingMoves", Sq: sq})
		test(c12Case{Func: "KnightMoves", Sq: sq})
		for col := 0; col < 2; col++ {
			test(c12Case{Func: "PawnCaptureMoves", Occ: 1 << uint(sq), Col: col})
			test(c12Case{Func: "PawnSinglePushMoves", Occ: 1 << uint(sq), Col: col})
		}
		for sq2 := 0; sq2 < 64; sq2++ {
			test(c12Case{Func: "InBetween", Sq: sq, Sq2: sq2})
		}
	}
	// set-valued pawn helpers: every pattern on every rank, and every pair of ranks with full rows
	for rank := 0; rank < 8; rank++ {
		for pat := uint64(0); pat < 256; pat++ {
			for col := 0; col < 2; col++ {
				test(c12Case{Func: "PawnCaptureMoves", Occ: pat << uint(8*rank), Col: col})
				test(c12Case{Func: "PawnSinglePushMoves", Occ: pat << uint(8*rank), Col: col})
				test(c12Case{Func: "PawnCaptureMoves", Occ: pat<<uint(8*rank) | pat<<uint(8*((rank+3)%8)), Col: col})
			}
		}
	}
	r.Sample(map[string]any{"func": "InBetween", "pairs": 4096})
	r.States.Store(subsets.Load())
	r.Transitions.Store(lookups.Load())
	r.Validated.Store(lookups.Load())
	r.Evals.Store(lookups.Load())
	r.Nontrivial.Store(subsets.Load())
	r.Set("off_ray_perturbations", offRay.Load())
	r.Set("exhaustive", true)
	r.Set("rule", "the whole finite space: 64 squares x every subset of the full ray set (edges included) for rook and bishop, each also with all off-ray squares set, with the own square set and with one off-ray bit (masking obligation); 64 squares for king/knight; 64x2 single pawns plus all 8-bit rank patterns x 8 ranks x 2 colours for the set-valued pawn helpers; all 64x64 pairs for InBetween (ends disregarded); oracle: coordinate-walking geometry written independently of the engine's table fill")
}
