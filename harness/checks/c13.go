package checks

import (
	"encoding/json"
	"fmt"
	"io"
	"os"
	"os/exec"
	"path/filepath"
	"regexp"
	"sort"
	"strings"
	"sync"
	"sync/atomic"
	"time"

	"github.com/paulsonkoly/chess-3/board"
	. "github.com/paulsonkoly/chess-3/chess"
	"github.com/paulsonkoly/chess-3/move"
	"github.com/paulsonkoly/chess-3/movegen"
	"github.com/paulsonkoly/chess-3/search"
	"github.com/paulsonkoly/chess-3/uci"

	"verif/ev"
	"verif/vsched"
)

// C13 — the UCI driver answers every request exactly once under any command timing.

// mockSpec describes how the controllable search behaves for one `go`.
type mockSpec struct {
	Polls      int  `json:"polls"`        // iterations: poll stop, poll ponderhit, write an info line
	Block      bool `json:"block"`        // after the iterations: never finish by itself (go infinite, or waiting for the hard timer)
	BlockAfter bool `json:"block_after"`  // pondering: after the ponderhit keep going until stopped
	Ponder     bool `json:"ponder_reply"` // return a ponder move
	Finish     bool `json:"finish"`       // pondering: finish without waiting for stop/ponderhit (the real search does when it runs out of depth)
	Deaf       bool `json:"deaf"`         // never polls the ponderhit channel (one long iteration: the real search polls it at iteration boundaries only)
}

type c13Script struct {
	Lines []string   `json:"lines"`
	Mocks []mockSpec `json:"mocks"`
	Name  string     `json:"name,omitempty"`
	Real  bool       `json:"real_search,omitempty"` // drive the real (instrumented) search instead of the mock
}

type c13Case struct {
	Script  c13Script `json:"script"`
	Choices []int     `json:"schedule"`
	Bound   int       `json:"bound"`
}

// mockSearch is the controllable Search; its protocol (poll-stop* / info / poll-ponderhit per iteration,
// then finish or block) is the automaton the real search's traces are validated against.
type mockSearch struct {
	specs     []mockSpec
	n         int
	softSeen  []int64
	depthSeen []int
}

var mockBest = move.From(E2) | move.To(E4)
var mockPonder = move.From(E7) | move.To(E5)

func (m *mockSearch) Go(b *board.Board, opts ...search.Option) (Score, move.Move, move.Move) {
	o := search.Options{Depth: MaxPlies, Nodes: -1, SoftNodes: -1}
	for _, f := range opts {
		f(&o)
	}
	g := m.n
	m.n++
	spec := mockSpec{Polls: 1}
	if g < len(m.specs) {
		spec = m.specs[g]
	}
	// like the real search the mock works ON the driver's board: while it runs a move is made (the side to move
	// of that board is the opponent), and it is taken back before the search returns
	if b != nil {
		if mv := mockFirstLegal(b); mv != 0 {
			rv := b.MakeMove(mv)
			defer b.UndoMove(mv, rv)
		}
	}
	m.softSeen = append(m.softSeen, o.SoftTime)
	m.depthSeen = append(m.depthSeen, int(o.Depth))
	pm := move.Move(0)
	if spec.Ponder {
		pm = mockPonder
	}
	if spec.Deaf {
		o.PonderHit = nil
	}
	stopped := func() bool {
		if o.Stop == nil {
			return false
		}
		i, _, _ := vsched.Select(true, o.Stop)
		return i == 0
	}
	for i := 0; i < spec.Polls; i++ {
		if stopped() {
			return 0, mockBest, pm
		}
		// same order as the real search: the ponderhit is polled before the iteration's info line is written
		if o.PonderHit != nil {
			if j, _, _ := vsched.Select(true, o.PonderHit); j == 0 {
				o.PonderHit = nil
			}
		}
		if o.Output != nil {
			fmt.Fprintf(o.Output, "info depth %d nodes %d\n", i, g)
		}
	}
	for spec.Block || (o.PonderHit != nil && !spec.Finish) {
		// a search that does not finish by itself: wait for stop (or for the ponderhit)
		var ph any
		if o.PonderHit != nil {
			ph = o.PonderHit
		} else {
			var nilch <-chan time.Time
			ph = nilch
		}
		j, _, _ := vsched.Select(false, o.Stop, ph)
		if j == 0 {
			break
		}
		o.PonderHit = nil
		if !spec.BlockAfter {
			break
		}
		spec.Block = true
	}
	return 0, mockBest, pm
}
func mockFirstLegal(b *board.Board) move.Move {
	ms := move.NewStore()
	ms.Push()
	movegen.GenNotNoisy(ms, b)
	movegen.GenNoisy(ms, b)
	for _, w := range ms.Frame() {
		rv := b.MakeMove(w.Move)
		ok := !b.InCheck(b.STM.Flip())
		b.UndoMove(w.Move, rv)
		if ok {
			return w.Move
		}
	}
	return 0
}

func (m *mockSearch) Clear()       {}
func (m *mockSearch) ResizeTT(int) {}

// scripted input: one line per Read, released according to protocol-conformance guards
type c13Env struct {
	script c13Script
	next   int
	out    []byte
	short  bool
	errOut []byte
	goSent int
	sched  *vsched.Sched
	lineAt map[int]time.Time // virtual time at which each delivered line was delivered
	marks  [][2]int          // (output length, go commands read so far) at every write
}

func (e *c13Env) bestmoves() int { return strings.Count(string(e.out), "bestmove") }

func (e *c13Env) released(i int) bool {
	if i >= len(e.script.Lines) {
		return true // end of input may arrive at any time after the last line
	}
	w := firstWordOf(e.script.Lines[i])
	switch w {
	case "position", "go", "ucinewgame", "setoption", "uci", "fen", "eval":
		// a conforming GUI sends these only while no search is running: every earlier go has been answered
		return e.bestmoves() >= e.goSent
	}
	return true // isready, stop, quit: at any time; ponderhit: see skip
}

func firstWordOf(s string) string {
	f := strings.Fields(s)
	if len(f) == 0 {
		return ""
	}
	return f[0]
}

// c13LineGap is the virtual time that passes before each GUI command (longer than most hard limits of the
// scripts, so a deadline measured from the wrong moment shows in the duration a timer is armed with).
const c13LineGap = 700 * time.Millisecond

type c13Reader struct{ e *c13Env }

func (r c13Reader) Read(p []byte) (int, error) {
	e := r.e
	v := vsched.Env(&vsched.EnvOp{Name: "in", Enabled: func() bool { return e.released(e.next) }, Do: func() any {
		// a GUI that has already received the bestmove of a ponder search does not send its ponderhit any more
		for e.next < len(e.script.Lines) && firstWordOf(e.script.Lines[e.next]) == "ponderhit" && e.bestmoves() >= e.goSent {
			e.next++
		}
		if e.next >= len(e.script.Lines) {
			return nil
		}
		s := e.script.Lines[e.next]
		if e.sched != nil {
			e.sched.Advance(c13LineGap) // the GUI's clock keeps running between its commands
			e.lineAt[e.next] = e.sched.VNow()
		}
		e.next++
		if firstWordOf(s) == "go" {
			e.goSent++
		}
		return s
	}})
	if v == nil {
		return 0, io.EOF
	}
	return copy(p, v.(string)+"\n"), nil
}

type c13Writer struct{ e *c13Env }

func (w c13Writer) Write(p []byte) (int, error) {
	e := w.e
	op := &vsched.EnvOp{Name: "out"}
	if e.short && len(p) > 1 {
		op.Alts = 1
	}
	op.Do = func() any {
		n := len(p)
		if op.Alt == 1 {
			n = len(p) / 2 // a short write: the driver must come back with the rest
		}
		e.marks = append(e.marks, [2]int{len(e.out), e.goSent})
		e.out = append(e.out, p[:n]...)
		return n
	}
	return vsched.Env(op).(int), nil
}

type c13Err struct{ e *c13Env }

func (w c13Err) Write(p []byte) (int, error) {
	w.e.errOut = append(w.e.errOut, p...)
	return len(p), nil
}

// c13Exec runs one execution of the script under the scheduler.
func c13Exec(sc c13Script, choices []int, visit func(uint64, int) bool, short, poolAlt, trace bool) (vsched.Outcome, *c13Env, *mockSearch, *vsched.Sched) {
	env := &c13Env{script: sc, short: short, lineAt: map[int]time.Time{}}
	mock := &mockSearch{specs: sc.Mocks}
	horizon := 4000
	if sc.Real {
		horizon = 40000 // every node of the real search is a scheduling point
	}
	s := vsched.New(choices, horizon)
	s.PoolEmptyAlt = poolAlt
	s.Trace = trace
	s.Visit = visit
	env.sched = s
	s.StateExtra = func() string { return fmt.Sprintf("in%d;go%d;mock%d;out:%s", env.next, env.goSent, mock.n, env.out) }
	out := s.Run(func() {
		var srch uci.Search = mock
		if sc.Real {
			srch = search.New(32000)
		}
		d := uci.NewDriver(uci.WithInput(c13Reader{env}), uci.WithOutput(c13Writer{env}), uci.WithError(c13Err{env}), uci.WithSearch(srch))
		d.Run()
	})
	return out, env, mock, s
}

// c13Judge is the oracle for one complete execution.
func c13Judge(sc c13Script, out vsched.Outcome, env *c13Env, mock *mockSearch, s *vsched.Sched) string {
	switch {
	case out.Panic != "":
		return "panic: " + firstLines(out.Panic, 12)
	case out.Deadlock:
		return fmt.Sprintf("deadlock: no thread can proceed; blocked: %v; output so far %q", out.Threads, env.out)
	case out.Horizon:
		return "livelock: step horizon exceeded"
	case out.Spin != "":
		return "spin: " + out.Spin
	case len(out.Threads) > 0:
		return fmt.Sprintf("threads still alive when the run ended: %v", out.Threads)
	}
	text := string(env.out)
	if text != "" && !strings.HasSuffix(text, "\n") {
		return fmt.Sprintf("output ends with a torn line: %q", text)
	}
	gos, readys := 0, 0
	for _, ln := range sc.Lines[:env.next] {
		switch firstWordOf(ln) {
		case "go":
			gos++
		case "isready":
			readys++
		}
	}
	nReady, nBest := 0, 0
	offset := 0
	for _, ln := range strings.Split(strings.TrimSuffix(text, "\n"), "\n") {
		lineStart := offset
		offset += len(ln) + 1
		if sc.Real && ln != "" && ln != "readyok" {
			// real search: lines are not predictable, but their shape and their place are
			switch {
			case c13RealBest.MatchString(ln):
				nBest++
			case c13RealInfo.MatchString(ln):
				goSent := 0
				for _, m := range env.marks {
					if m[0] <= lineStart {
						goSent = m[1]
					}
				}
				if nBest >= goSent {
					return fmt.Sprintf("info line %q written while no search is pending (%d bestmoves, %d go commands read): %q", ln, nBest, goSent, text)
				}
			default:
				return fmt.Sprintf("unexpected or torn output line %q in %q", ln, text)
			}
			continue
		}
		switch {
		case ln == "":
			if text != "" {
				return fmt.Sprintf("empty output line in %q", text)
			}
		case ln == "readyok":
			nReady++
		case ln == "bestmove e2e4" || ln == "bestmove e2e4 ponder e7e5":
			nBest++
		case strings.HasPrefix(ln, "info depth "):
			var it, g int
			if n, _ := fmt.Sscanf(ln, "info depth %d nodes %d", &it, &g); n != 2 || ln != fmt.Sprintf("info depth %d nodes %d", it, g) {
				return fmt.Sprintf("corrupted info line %q in %q", ln, text)
			}
			if g != nBest {
				return fmt.Sprintf("info line of search %d appears after %d bestmove lines: %q", g, nBest, text)
			}
			if g < len(sc.Mocks) && it >= sc.Mocks[g].Polls {
				return fmt.Sprintf("info line %q was never written by search %d: %q", ln, g, text)
			}
		default:
			return fmt.Sprintf("unexpected or torn output line %q in %q", ln, text)
		}
	}
	if nBest != gos {
		return fmt.Sprintf("%d go commands, %d bestmove lines: %q", gos, nBest, text)
	}
	if nReady != readys {
		return fmt.Sprintf("%d isready commands, %d readyok lines: %q", readys, nReady, text)
	}
	if !sc.Real && mock.n != gos {
		return fmt.Sprintf("%d go commands, %d searches started", gos, mock.n)
	}
	if !sc.Real {
		if msg := c13TimeUseSites(sc, env, mock, s); msg != "" {
			return msg
		}
	}
	return ""
}

// c13TimeUseSites (C14 at its use sites): the soft target handed to the search must be exactly what the
// driver's limit computation yields for the clock in the go line, and the hard deadline in effect - measured
// on the virtual clock from the event that starts the mover's clock (the go command, or the ponderhit of a
// ponder search) - must be that computation's hard limit: a timer armed at time a with duration d belongs to
// the go command whose window contains a, and must satisfy d <= hard and a+d >= event+hard (the arming
// latency may lengthen the deadline in effect, nothing may shorten it or make it depend on anything else).
func c13TimeUseSites(sc c13Script, env *c13Env, mock *mockSearch, s *vsched.Sched) string {
	type goCmd struct {
		line          string
		at, hit       time.Time
		hard          time.Duration
		timed, ponder bool
		hitSeen       bool
		timers        int
		firstFire     time.Time
	}
	var gos []goCmd
	for i, ln := range sc.Lines[:env.next] {
		at, delivered := env.lineAt[i]
		if !delivered {
			continue
		}
		f := strings.Fields(ln)
		if len(f) == 0 {
			continue
		}
		if f[0] == "ponderhit" && len(gos) > 0 && !gos[len(gos)-1].hitSeen {
			gos[len(gos)-1].hit, gos[len(gos)-1].hitSeen = at, true
		}
		if f[0] != "go" {
			continue
		}
		var tc [5]int64 // wtime btime winc binc movetime
		ponder := false
		for i, w := range f {
			for k, name := range []string{"wtime", "btime", "winc", "binc", "movetime"} {
				if w == name && i+1 < len(f) {
					fmt.Sscan(f[i+1], &tc[k])
				}
			}
			if w == "ponder" {
				ponder = true
			}
		}
		soft, hard, timed := uci.VerifLimits(tc[0], tc[1], tc[2], tc[3], tc[4], White)
		g := len(gos)
		if g < len(mock.softSeen) {
			want := int64(0)
			if timed {
				want = soft
			}
			if mock.softSeen[g] != want {
				return fmt.Sprintf("soft-target: search %d (%q) was given soft time %d, the limit computation yields %d", g, ln, mock.softSeen[g], want)
			}
		}
		gos = append(gos, goCmd{line: ln, at: at, hard: time.Duration(hard) * time.Millisecond, timed: timed, ponder: ponder})
	}
	for _, tm := range s.TimerArms() {
		g := -1
		for i := range gos {
			if !gos[i].at.After(tm.At) {
				g = i
			}
		}
		if g < 0 {
			return fmt.Sprintf("hard-deadline: a timer of %v was armed before any go command", tm.D)
		}
		c := &gos[g]
		c.timers++
		switch {
		case !c.timed:
			return fmt.Sprintf("hard-deadline %q is not time-controlled but a timer of %v was armed", c.line, tm.D)
		case c.ponder && (!c.hitSeen || tm.At.Before(c.hit)):
			return fmt.Sprintf("hard-deadline %q: hard timer armed while still pondering (no ponderhit delivered yet)", c.line)
		}
		event := c.at
		if c.ponder {
			event = c.hit
		}
		if tm.D > c.hard {
			return fmt.Sprintf("hard-deadline %q: hard timer armed with %v, the limit computation yields %v", c.line, tm.D, c.hard)
		}
		// a driver may arm its timer again (e.g. a fresh timer per loop iteration): no later timer may postpone the deadline
		if c.timers == 1 {
			c.firstFire = tm.At.Add(tm.D)
		} else if fire := tm.At.Add(tm.D); fire.After(c.firstFire) {
			return fmt.Sprintf("hard-deadline %q: a timer armed again %v after the first one postpones the deadline by %v", c.line, tm.At.Sub(c.firstFire.Add(-c.hard)), fire.Sub(c.firstFire))
		}
		if fire := tm.At.Add(tm.D); fire.Before(event.Add(c.hard)) {
			return fmt.Sprintf("hard-deadline %q: the hard deadline in effect lies %v after the event that starts the mover's clock, the limit computation yields %v (timer of %v armed %v after the event)", c.line, fire.Sub(event), c.hard, tm.D, tm.At.Sub(event))
		}
	}
	for _, c := range gos {
		if c.timed && !c.ponder && c.timers < 1 {
			return fmt.Sprintf("hard-deadline %q: time-controlled search without a hard timer", c.line)
		}
	}
	return ""
}

var c13RealBest = regexp.MustCompile(`^bestmove ([a-h][1-8][a-h][1-8][qrbn]?|0000)( ponder [a-h][1-8][a-h][1-8][qrbn]?)?$`)
var c13RealInfo = regexp.MustCompile(`^info depth \d+( score (cp|mate) -?\d+)? nodes \d+( time \d+ hashfull \d+ pv( [a-h][1-8][a-h][1-8][qrbn]?)*)? ?$`)

// c13RealScripts drive the real search (instrumented: every stop/ponderhit poll is a scheduling point).
func c13RealScripts() []c13Script {
	pos := "position fen 8/8/8/4k3/8/8/4P3/4K3 w - - 0 1"
	return []c13Script{
		{Name: "real-depth2-isready", Real: true, Lines: []string{pos, "go depth 2", "isready"}},
		{Name: "real-infinite-stop", Real: true, Lines: []string{pos, "go depth 3", "stop"}},
		{Name: "real-movetime-isready", Real: true, Lines: []string{pos, "go depth 2 movetime 50", "isready"}},
		{Name: "real-depth1-quit", Real: true, Lines: []string{pos, "go depth 2", "quit"}},
	}
}

// ---- script grammar -------------------------------------------------------------

func c13Scripts(thorough bool) []c13Script {
	type goKind struct {
		pre    []string
		line   string
		mocks  []mockSpec
		ponder bool
	}
	kinds := []goKind{
		{nil, "go infinite", []mockSpec{{Polls: 2, Block: true}}, false},
		{nil, "go depth 1", []mockSpec{{Polls: 2}}, false},
		{nil, "go movetime 5", []mockSpec{{Polls: 2}}, false},
		{nil, "go movetime 5", []mockSpec{{Polls: 1, Block: true}}, false},
		{nil, "go wtime 1000 btime 3000 winc 10 binc 40", []mockSpec{{Polls: 1}}, false},
		{nil, "go wtime 1000 btime 3000 winc 10 binc 40", []mockSpec{{Polls: 1, Block: true}}, false},
		{[]string{"setoption name Ponder value true"}, "go ponder wtime 1000 btime 3000", []mockSpec{{Polls: 1, Ponder: true}}, true},
		{[]string{"setoption name Ponder value true"}, "go ponder wtime 1000 btime 3000", []mockSpec{{Polls: 1, Ponder: true, BlockAfter: true}}, true},
		{[]string{"setoption name Ponder value true"}, "go ponder wtime 1000 btime 3000", []mockSpec{{Polls: 2, Ponder: true, Finish: true}}, true},
	}
	if thorough {
		// more info lines than the output channel holds (back-pressure on the search while commands arrive)
		kinds = append(kinds, goKind{nil, "go depth 6", []mockSpec{{Polls: 6}}, false})
	}
	var out []c13Script
	for _, prefix := range [][]string{nil, {"isready"}} {
		for ki, k := range kinds {
			alpha := []string{"isready", "stop", "quit"}
			if k.ponder {
				alpha = append(alpha, "ponderhit")
			}
			var during [][]string
			during = append(during, nil)
			for _, a := range alpha {
				during = append(during, []string{a})
				if a == "quit" {
					continue
				}
				for _, b := range alpha {
					if a == "ponderhit" && b == "ponderhit" {
						continue // a GUI sends one ponderhit per ponder search
					}
					during = append(during, []string{a, b})
				}
			}
			for _, du := range during {
				quitLast := len(du) > 0 && du[len(du)-1] == "quit"
				has := func(w string) bool {
					for _, x := range du {
						if x == w {
							return true
						}
					}
					return false
				}
				// does the first search ever end without a further command? (a GUI waiting for its
				// bestmove before sending the next go would otherwise wait forever: not a script)
				m0 := k.mocks[0]
				timed := strings.Contains(k.line, "time")
				ends := has("stop") || (!k.ponder && (!m0.Block || timed)) || (k.ponder && (has("ponderhit") || m0.Finish))
				suffixes := [][]string{nil}
				if !quitLast {
					suffixes = append(suffixes, []string{"isready"})
					if ends {
						suffixes = append(suffixes, []string{"go depth 1", "stop"})
						if thorough {
							suffixes = append(suffixes, []string{"position startpos moves e2e4", "go depth 1"}, []string{"ucinewgame", "setoption name Hash value 2", "isready"})
						}
					}
				}
				for si, su := range suffixes {
					var lines []string
					lines = append(lines, prefix...)
					lines = append(lines, k.pre...)
					lines = append(lines, k.line)
					lines = append(lines, du...)
					lines = append(lines, su...)
					mocks := append([]mockSpec(nil), k.mocks...)
					if si == 2 {
						mocks = append(mocks, mockSpec{Polls: 1, Block: true})
					}
					out = append(out, c13Script{Lines: lines, Mocks: mocks, Name: fmt.Sprintf("p%d-k%d-%s-s%d", len(prefix), ki, strings.Join(du, "+"), si)})
				}
			}
		}
	}
	// hand-written scripts outside the product grammar: two ponder searches in a row (what one leaves in the
	// hand-over channel meets the next), and commands with tabs / surplus blanks around their words
	// ("arbitrary white space between tokens is allowed")
	pon, gp := "setoption name Ponder value true", "go ponder wtime 1000 btime 3000"
	two := []string{pon, gp, "ponderhit", "stop", gp, "ponderhit", "stop", "isready"}
	out = append(out,
		c13Script{Name: "x-two-ponder-deaf", Lines: two, Mocks: []mockSpec{{Polls: 1, Block: true, Deaf: true}, {Polls: 1, Block: true, Deaf: true}}},
		c13Script{Name: "x-two-ponder-deaf-then-polling", Lines: two, Mocks: []mockSpec{{Polls: 1, Block: true, Deaf: true}, {Polls: 1, Ponder: true, BlockAfter: true}}},
		c13Script{Name: "x-two-ponder-polling", Lines: two, Mocks: []mockSpec{{Polls: 1, Ponder: true, BlockAfter: true}, {Polls: 1, Ponder: true, BlockAfter: true}}},
		c13Script{Name: "x-two-ponder-stop-first", Lines: []string{pon, gp, "stop", gp, "isready", "ponderhit"}, Mocks: []mockSpec{{Polls: 1, Block: true, Deaf: true}, {Polls: 2, Ponder: true, Finish: true}}},
		c13Script{Name: "x-tabs-stop", Lines: []string{"isready\t", "go\tinfinite", "isready\t", "stop\t", "isready"}, Mocks: []mockSpec{{Polls: 2, Block: true}}},
		c13Script{Name: "x-tabs-quit", Lines: []string{"go infinite", "\tisready", "quit\t"}, Mocks: []mockSpec{{Polls: 2, Block: true}}},
		c13Script{Name: "x-tabs-ponderhit", Lines: []string{pon, gp, "ponderhit\t", "  isready  "}, Mocks: []mockSpec{{Polls: 1, Ponder: true}}},
		c13Script{Name: "x-tabs-movetime", Lines: []string{"go\tmovetime\t5", " isready\t", "stop \t "}, Mocks: []mockSpec{{Polls: 1, Block: true}}},
	)
	return out
}

// c13KeyScripts cover each mechanism once: command during a search, stop, quit and end of input during a
// search, the hard timer, the ponderhit hand-over, two searches in a row.
var c13KeyScripts = []string{
	"p0-k0-isready+stop-s1", "p1-k0-stop-s2", "p0-k0-quit-s0", "p0-k0--s0", "p0-k1-isready-s2", "p0-k3-isready-s1",
	"p0-k5--s0", "p0-k6-ponderhit-s1", "p0-k8-ponderhit-s0", "p0-k8-isready+ponderhit-s1", "p0-k7-isready+ponderhit-s0", "p0-k7-ponderhit+stop-s2", "p1-k6-stop-s0", "p0-k2-stop+isready-s2",
}

func c13Replay(class string, raw json.RawMessage) (bool, string) {
	var c c13Case
	if err := json.Unmarshal(raw, &c); err != nil {
		return false, err.Error()
	}
	if !Instrumented {
		return false, "replay needs the instrumented binary (run through bin/check)"
	}
	// follow the recorded schedule exactly; any divergence is a hard error
	out, env, mock, s := c13Exec(c.Script, c.Choices, nil, true, true, true)
	if out.Diverged != "" {
		return false, "instrument error: " + out.Diverged
	}
	if msg := c13Judge(c.Script, out, env, mock, s); msg != "" {
		return true, msg + "\nschedule trace:\n  " + strings.Join(s.TraceLines(), "\n  ")
	}
	return false, "schedule runs clean"
}

func init() {
	register(&Check{ID: "C13", Level: "model_checking", Run: runC13, Replay: c13Replay})
	register(&Check{ID: "C13sub", Level: "model_checking", Run: runC13Sub})
	register(&Check{ID: "C13race", Level: "model_checking", Run: runC13Race})
}

type c13Result struct {
	Script string `json:"script"`
	Execs  int    `json:"execs"`
	Points int    `json:"points"`
	States int    `json:"states"`
	Bound  int    `json:"bound"`
	Capped bool   `json:"capped"`
	// Completed is the highest deviation bound whose exploration finished (-1 none); equals Bound unless capped.
	Completed int `json:"completed_bound"`
	// Closed: the exploration with unbounded deviations visited every reachable global state of the script.
	Closed   bool     `json:"closed_unbounded"`
	Outcomes []string `json:"outcomes"`
	Failure  string   `json:"failure,omitempty"`
	Schedule []int    `json:"schedule,omitempty"`
}

// c13Explore explores one script to the given bound (bound<0 = unbounded with pruning).
func c13Explore(sc c13Script, bound int, prune bool, maxExecs int, stop func() bool) c13Result {
	return c13ExploreU(sc, bound, prune, maxExecs, stop, false)
}

// c13ExploreU: iterative bounds 0..bound, then (if thenUnbounded and nothing failed) the unbounded exploration.
func c13ExploreU(sc c13Script, bound int, prune bool, maxExecs int, stop func() bool, thenUnbounded bool) c13Result {
	outcomes := map[string]bool{}
	var lastJudge string
	// iterative deviation bounding: 0, 1, 2, ... so that a capped exploration still reports the bound it completed
	// (the first counterexample found this way also has the fewest deviations)
	bounds := []int{1 << 30}
	if bound >= 0 {
		bounds = nil
		for b := 0; b <= bound; b++ {
			bounds = append(bounds, b)
		}
		if thenUnbounded && prune {
			bounds = append(bounds, 1<<30)
		}
	}
	res := c13Result{Script: sc.Name, Bound: bound, Completed: -1}
	for _, b := range bounds {
		ex := &vsched.Explorer{Bound: b, Prune: prune, MaxExecs: maxExecs, Stop: stop}
		ex.Exec = func(choices []int, visit func(uint64, int) bool) vsched.Outcome {
			out, env, mock, s := c13Exec(sc, choices, visit, true, true, false)
			lastJudge = ""
			if !out.Pruned && out.Diverged == "" {
				lastJudge = c13Judge(sc, out, env, mock, s)
				outcomes[string(env.out)] = true
			}
			return out
		}
		ex.Check = func(choices []int, out vsched.Outcome) string { return lastJudge }
		ex.Run()
		res.Execs += ex.Execs
		res.Points += ex.Points
		res.States = max(res.States, ex.States)
		res.Capped = ex.Capped
		res.Failure, res.Schedule = ex.Failure, ex.FailedAt
		if ex.Failure != "" || ex.Capped {
			if b >= 1<<29 && ex.Failure == "" && res.Completed >= 0 {
				res.Capped = false // the bounded part is complete; only the unbounded attempt ran out of budget
			}
			break
		}
		if b >= 1<<29 {
			res.Closed = true
			if bound < 0 {
				res.Completed = -2
			}
		} else {
			res.Completed = b
		}
	}
	for o := range outcomes {
		res.Outcomes = append(res.Outcomes, o)
	}
	sort.Strings(res.Outcomes)
	return res
}

// runC13Sub explores the scripts given in VERIF_C13_JOB (a JSON file) in this process
// (the scheduler is process-global: one exploration at a time per process) and prints JSON results.
func runC13Sub(r *ev.Run) {
	var job struct {
		Scripts []c13Script `json:"scripts"`
		Bound   int         `json:"bound"`
		Prune   bool        `json:"prune"`
		Unbound bool        `json:"then_unbounded"`
		MaxExec int         `json:"max_execs"`
		Budget  int         `json:"budget_s"`
	}
	data, err := os.ReadFile(os.Getenv("VERIF_C13_JOB"))
	if err != nil || json.Unmarshal(data, &job) != nil {
		fmt.Println(`{"error":"bad job"}`)
		os.Exit(2)
	}
	if !Instrumented {
		fmt.Println(`{"error":"not instrumented"}`)
		os.Exit(2)
	}
	deadline := time.Now().Add(time.Duration(job.Budget) * time.Second)
	stop := func() bool { return time.Now().After(deadline) }
	enc := json.NewEncoder(os.Stdout)
	// determinism obligation: the same schedule twice gives identical observations
	if len(job.Scripts) > 0 {
		o1, e1, _, _ := c13Exec(job.Scripts[0], nil, nil, true, true, false)
		o2, e2, _, _ := c13Exec(job.Scripts[0], nil, nil, true, true, false)
		if len(o1.Points) != len(o2.Points) || string(e1.out) != string(e2.out) {
			enc.Encode(c13Result{Script: job.Scripts[0].Name, Failure: "instrument error: the same schedule executed twice gave different observations"})
			os.Exit(0)
		}
	}
	_ = stop
	for i, sc := range job.Scripts {
		// an equal share of what is left for every script still to come
		share := time.Until(deadline) / time.Duration(len(job.Scripts)-i)
		scDeadline := time.Now().Add(share)
		enc.Encode(c13ExploreU(sc, job.Bound, job.Prune, job.MaxExec, func() bool { return time.Now().After(scDeadline) }, job.Unbound))
	}
	os.Exit(0)
}

func runC13(r *ev.Run) {
	bin := filepath.Join(ev.Root, ".build", "verifcheck-instr")
	if _, err := os.Stat(bin); err != nil {
		fmt.Fprintln(os.Stderr, "instrument error: the instrumented binary is missing; run through bin/check")
		os.Exit(2)
	}
	scripts := c13Scripts(r.Thorough())
	r.Set("scripts_in_grammar", len(scripts))
	// quick: the key scripts plus a seed-rotated 1/48 of the grammar: bounds 0..2, then unbounded within the time share;
	// thorough: every script likewise, a seed-rotated 1/12 additionally at bound 3
	isKey := func(sc c13Script) bool {
		if strings.HasPrefix(sc.Name, "x-") {
			return true
		}
		for _, k := range c13KeyScripts {
			if sc.Name == k {
				return true
			}
		}
		return false
	}
	var sel, deep, key []c13Script
	for i, sc := range scripts {
		if r.Thorough() || isKey(sc) || i%48 == int(r.Seed%48) {
			sel = append(sel, sc)
		}
		if r.Thorough() && i%12 == int(r.Seed%12) {
			deep = append(deep, sc)
		}
		if (isKey(sc) && len(key) < ev.Pick(r, 2, 16)) || (r.Thorough() && i%97 == int(r.Seed%97)) {
			key = append(key, sc)
		}
	}
	bound := 2
	var execs, points, states, capped, outcomes atomic.Int64
	var mu sync.Mutex
	completed := map[string]int{}
	closed := 0
	sample := 0
	handle := func(res c13Result, sc c13Script, b int) {
		execs.Add(int64(res.Execs))
		points.Add(int64(res.Points))
		states.Add(int64(res.States))
		outcomes.Add(int64(len(res.Outcomes)))
		if res.Capped {
			capped.Add(1)
		}
		mu.Lock()
		completed[fmt.Sprintf("wanted %d completed %d", b, res.Completed)]++
		if res.Closed {
			closed++
		}
		mu.Unlock()
		if res.Failure != "" {
			cls := "schedule/" + strings.Join(strings.Fields(strings.SplitN(res.Failure, ":", 2)[0])[:1], "-")
			if c := res.Failure[0]; c >= '0' && c <= '9' {
				cls = "schedule/answer-count" // "N go commands, M bestmove lines", "N isready commands, M readyok lines"
			}
			if strings.HasPrefix(res.Failure, "instrument error") {
				fmt.Fprintln(os.Stderr, res.Failure)
				os.Exit(2)
			}
			r.Fail(cls, c13Case{Script: sc, Choices: res.Schedule, Bound: b}, "script %v (mock %+v), bound %d: %s", sc.Lines, sc.Mocks, b, res.Failure)
		}
		mu.Lock()
		if sample < 6 && res.Execs > 50 {
			sample++
			r.Sample(map[string]any{"script": sc.Lines, "mock": sc.Mocks, "bound": b, "executions": res.Execs, "states": res.States, "distinct_transcripts": len(res.Outcomes), "capped": res.Capped})
		}
		mu.Unlock()
	}
	runJobs := func(list []c13Script, b int, prune bool, maxExec int, budget int, thenUnbounded ...bool) {
		// shard scripts over sub-processes (the scheduler is process-global)
		nw := ev.Workers()
		shards := make([][]c13Script, nw)
		for i, sc := range list {
			shards[i%nw] = append(shards[i%nw], sc)
		}
		ev.Parallel(nw, func(worker, item int) {
			if len(shards[item]) == 0 {
				return
			}
			results, err := c13Sub(bin, shards[item], b, prune, maxExec, budget, thenUnbounded...)
			if err != "" {
				fmt.Fprintln(os.Stderr, "instrument error: C13 sub-run: "+err)
				os.Exit(2)
			}
			for i, res := range results {
				handle(res, shards[item][i], b)
			}
			if len(results) < len(shards[item]) {
				capped.Add(int64(len(shards[item]) - len(results)))
			}
		})
	}
	// side passes run concurrently with the exploration
	var side sync.WaitGroup
	var xval, raceInfo string
	var traces int64
	side.Add(3)
	go func() { defer side.Done(); xval = c13CrossValidate(bin, scripts) }()
	go func() { defer side.Done(); traces = c13TraceValidation(bin) }()
	go func() { defer side.Done(); raceInfo = c13RacePass(r) }()
	total := r.Remaining().Seconds()
	// bounds 0,1,2 first, then with what is left of each script's share the unbounded exploration
	runJobs(sel, bound, true, 0, int(total*ev.Pick(r, 0.62, 0.50)), true)
	if len(deep) > 0 {
		runJobs(deep, 3, true, 0, int(total*0.30))
	}
	// the real search in the driver: every poll of the search is a scheduling point (bound 1)
	real := c13RealScripts()
	runJobs(real, ev.Pick(r, 1, 2), true, 0, int(total*0.15))
	r.Set("real_search_scripts", len(real))
	_ = key
	r.Set("scripts_closed_with_unbounded_deviations", closed)
	r.Set("scripts_explored_bound3", len(deep))
	r.Set("scripts_explored_bounded", len(sel))
	r.Set("scripts_explored_unbounded", closed)
	r.Set("bound", bound)

	side.Wait()
	if c13Hung != "" {
		r.Fail("stop-not-honoured", c13Case{Script: c13Script{Name: "solo", Real: true, Lines: []string{c13Hung}}}, "%s", c13Hung)
	}
	// pruning cross-validation: three baseline scripts with and without pruning at bound 1 must give the same transcripts
	r.Set("pruning_cross_validation", xval)
	// model bound to code: traces of the real (instrumented) search accepted by the mock's protocol automaton
	r.Validated.Store(traces)
	// complementary free-running pass under the race detector
	r.Set("race_pass", raceInfo)

	r.States.Store(states.Load())
	r.Transitions.Store(points.Load())
	r.Evals.Store(execs.Load())
	r.Nontrivial.Store(outcomes.Load())
	r.Set("executions", execs.Load())
	r.Set("scheduling_points", points.Load())
	r.Set("distinct_transcripts_total", outcomes.Load())
	r.Set("explorations_capped", capped.Load())
	r.Set("completed_bounds", completed) // "wanted -1 completed -2" = unbounded exploration closed; completed -1 = not even bound 0
	if capped.Load() > 0 {
		r.Cut()
	}
	r.Set("rule", "the real uci package with its channel/WaitGroup/Pool/timer/clock operations redirected to a cooperative scheduler by an overlay produced from the current sources; threads: reader, handler(+search), writer, interrupt goroutine per go, timers; scripts from a bounded conforming grammar (prefix x go kind x up to two commands during the search x suffix) with a controllable mock search (finishing or blocking); per script all interleavings with 0, 1, 2 deviations (preemptions, short writes, pool misses) with global-state-key pruning, then - within the script's time share - with unbounded deviations until every reachable global state has been expanded (scripts_closed_with_unbounded_deviations); oracle: no panic, no deadlock, all threads finished, each go exactly one bestmove after its info lines, each isready one readyok, every line intact; states = distinct global states, transitions = scheduling points, non-trivial = distinct transcripts")
	r.Assume("data races are invisible to a cooperative scheduler: complementary free-running race-detector pass; its silence proves nothing")
	r.Assume("the mock search is a model of the real search's interaction protocol; real-search traces are validated against it (traces_validated_against_impl)")
}

func c13Sub(bin string, scripts []c13Script, bound int, prune bool, maxExec, budget int, thenUnbounded ...bool) ([]c13Result, string) {
	f, err := os.CreateTemp("", "c13job")
	if err != nil {
		return nil, err.Error()
	}
	defer os.Remove(f.Name())
	json.NewEncoder(f).Encode(map[string]any{"scripts": scripts, "bound": bound, "prune": prune, "max_execs": maxExec, "budget_s": max(budget, 5), "then_unbounded": len(thenUnbounded) > 0 && thenUnbounded[0]})
	f.Close()
	cmd := exec.Command(bin, "C13sub")
	cmd.Env = append(os.Environ(), "VERIF_C13_JOB="+f.Name(), "GOMAXPROCS=2")
	var stderr strings.Builder
	cmd.Stderr = &stderr
	out, err := cmd.Output()
	if err != nil {
		return nil, fmt.Sprintf("%v: %s", err, trunc(stderr.String()))
	}
	var res []c13Result
	dec := json.NewDecoder(strings.NewReader(string(out)))
	for dec.More() {
		var r c13Result
		if err := dec.Decode(&r); err != nil {
			return res, "bad sub-run output: " + err.Error()
		}
		res = append(res, r)
	}
	return res, ""
}

func c13CrossValidate(bin string, scripts []c13Script) string {
	// three small scripts (the unpruned exploration must stay affordable)
	pick := func(name string) c13Script {
		for _, sc := range scripts {
			if sc.Name == name {
				return sc
			}
		}
		return scripts[0]
	}
	base := []c13Script{pick("p0-k1--s0"), pick("p0-k0-quit-s0"), pick("p0-k6-ponderhit-s0")}
	a, e1 := c13Sub(bin, base, 1, true, 0, 60)
	b, e2 := c13Sub(bin, base, 1, false, 300000, 60)
	if e1 != "" || e2 != "" {
		return "not run: " + e1 + e2
	}
	for i := range base {
		if i >= len(a) || i >= len(b) || b[i].Capped {
			continue
		}
		if strings.Join(a[i].Outcomes, "|") != strings.Join(b[i].Outcomes, "|") {
			fmt.Fprintf(os.Stderr, "instrument error: state-key pruning changes the outcome set of script %v: %d vs %d transcripts\n", base[i].Lines, len(a[i].Outcomes), len(b[i].Outcomes))
			os.Exit(2)
		}
	}
	return fmt.Sprintf("3 scripts at bound 1: identical transcript sets with pruning (%d+%d+%d executions) and without (%d+%d+%d)", a[0].Execs, a[1].Execs, a[2].Execs, b[0].Execs, b[1].Execs, b[2].Execs)
}
