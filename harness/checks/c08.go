package checks

import (
	"bytes"
	"encoding/json"
	"fmt"
	"os"
	"os/exec"
	"path/filepath"
	"regexp"
	"strings"
	"sync"
	"sync/atomic"
	"time"

	"github.com/paulsonkoly/chess-3/search"

	"verif/ev"
	"verif/universe"
)

// C08 — search is reproducible and never overspends its node budget.

type c08Case struct {
	Kind     string      `json:"kind"`     // "twin", "soft-hard", "concurrent"
	Requests []searchReq `json:"requests"` // the sequence of searches on one instance; the last one is the failing one
	HardLast bool        `json:"hard_twin,omitempty"`
}

var timeField = regexp.MustCompile(` time \d+`)

func maskTime(s string) string { return timeField.ReplaceAllString(s, " time T") }

type c08Obs struct {
	Score, Move, Ponder, Nodes int
	Out                        string
	TT, Ranker                 uint64
	Gen                        int
}

func c08Observe(s *search.Search, res *searchRes) c08Obs {
	tt, rk, gen := s.VerifDigest()
	return c08Obs{int(res.Score), int(res.Move), int(res.Ponder), res.Nodes, maskTime(res.Out), tt, rk, gen}
}

func (a c08Obs) diff(b c08Obs, compareOut bool) string {
	switch {
	case a.Score != b.Score || a.Move != b.Move || a.Ponder != b.Ponder:
		return fmt.Sprintf("result (score %d move %d ponder %d) vs (score %d move %d ponder %d)", a.Score, a.Move, a.Ponder, b.Score, b.Move, b.Ponder)
	case a.Nodes != b.Nodes:
		return fmt.Sprintf("node count %d vs %d", a.Nodes, b.Nodes)
	case compareOut && a.Out != b.Out:
		return fmt.Sprintf("reported lines differ:\n%s---\n%s", a.Out, b.Out)
	case a.TT != b.TT:
		return "transposition table contents left behind differ"
	case a.Ranker != b.Ranker:
		return "history tables left behind differ"
	case a.Gen != b.Gen:
		return "generation counter differs"
	}
	return ""
}

// completedPrefix: the hard twin prints one extra abort line; compare the completed lines only.
func completedLines(out string) string {
	var keep []string
	for _, ln := range strings.Split(out, "\n") {
		if strings.Contains(ln, " score ") {
			keep = append(keep, ln)
		}
	}
	return strings.Join(keep, "\n")
}

func c08Replay(class string, raw json.RawMessage) (bool, string) {
	var c c08Case
	if err := json.Unmarshal(raw, &c); err != nil {
		return false, err.Error()
	}
	if len(c.Requests) == 0 {
		return false, "no requests"
	}
	if c.Kind == "output-sink" {
		sA, sD := search.New(c.Requests[0].TT), search.New(c.Requests[0].TT)
		for i, q := range c.Requests {
			h1, err := newHistory(q.FEN, q.Moves)
			if err != nil {
				return false, err.Error()
			}
			h2, _ := newHistory(q.FEN, q.Moves)
			qq := q
			qq.NoOutput, qq.NoCounters = true, false
			r1 := runSearch(sA, h1.B, q)
			r2 := runSearch(sD, h2.B, qq)
			o1 := c08Observe(sA, &r1)
			o1.Out = ""
			if d := o1.diff(c08Observe(sD, &r2), false); d != "" {
				return true, fmt.Sprintf("search %d: with and without an output sink: %s", i, d)
			}
		}
		return false, "the output sink does not matter"
	}
	if c.Kind == "cleared-vs-fresh" {
		s, fresh := search.New(c.Requests[0].TT), search.New(c.Requests[0].TT)
		for _, q := range c.Requests[:len(c.Requests)-1] {
			h, err := newHistory(q.FEN, q.Moves)
			if err != nil {
				return false, err.Error()
			}
			runSearch(s, h.B, q)
		}
		s.Clear()
		q := c.Requests[len(c.Requests)-1]
		h1, err := newHistory(q.FEN, q.Moves)
		if err != nil {
			return false, err.Error()
		}
		h2, _ := newHistory(q.FEN, q.Moves)
		r1 := runSearch(s, h1.B, q)
		r2 := runSearch(fresh, h2.B, q)
		if d := c08Observe(s, &r1).diff(c08Observe(fresh, &r2), true); d != "" {
			return true, "a cleared instance answers differently from a fresh one: " + d
		}
		return false, "cleared instance equals a fresh one"
	}
	run := func(hardLast bool) (c08Obs, error) {
		s := search.New(c.Requests[0].TT)
		var o c08Obs
		for i, q := range c.Requests {
			h, err := newHistory(q.FEN, q.Moves)
			if err != nil {
				return o, err
			}
			if hardLast && i == len(c.Requests)-1 {
				q.Nodes, q.SoftNodes = o.Nodes, -1
			}
			res := runSearch(s, h.B, q)
			if hardLast && i == len(c.Requests)-2 {
				// remember how many nodes the soft-limited search used: not needed here
			}
			o = c08Observe(s, &res)
		}
		return o, nil
	}
	a, err := run(false)
	if err != nil {
		return false, err.Error()
	}
	b, err := run(false)
	if err != nil {
		return false, err.Error()
	}
	if d := a.diff(b, true); d != "" {
		return true, "two instances driven identically differ: " + d
	}
	if c.Kind == "soft-hard" {
		last := c.Requests[len(c.Requests)-1]
		reqs := append([]searchReq(nil), c.Requests...)
		hq := last
		hq.Nodes, hq.SoftNodes = a.Nodes, -1
		reqs[len(reqs)-1] = hq
		s := search.New(reqs[0].TT)
		var o c08Obs
		for _, q := range reqs {
			h, _ := newHistory(q.FEN, q.Moves)
			res := runSearch(s, h.B, q)
			o = c08Observe(s, &res)
		}
		oo, aa := o, a
		oo.Out, aa.Out = completedLines(o.Out), completedLines(a.Out)
		if d := aa.diff(oo, true); d != "" {
			return true, fmt.Sprintf("soft-limited search used %d nodes; the hard-budget replay differs: %s", a.Nodes, d)
		}
	}
	return false, "reproducible"
}

func init() {
	register(&Check{ID: "C08", Level: "model_checking", Run: runC08, Replay: c08Replay})
	register(&Check{ID: "C08race", Level: "model_checking", Run: runC08Race})
}

type c08Game struct {
	noCounters bool
	start      searchReq
	soft       int
	hard       int // > 0: every search of the game runs under this hard node budget instead of a soft limit
	depth      int
	plies      int
	tt         int
}

func c08Games(r *ev.Run) []c08Game {
	br := universe.BenchRoots()
	var gs []c08Game
	n := ev.Pick(r, 192, 320)
	softs := []int{60, 200, 500, 1500, 4000}
	for i := 0; i < n; i++ {
		g := c08Game{start: searchReq{FEN: br[(i*7+int(r.Seed)*3)%len(br)].FEN}, soft: softs[i%len(softs)], depth: 6 + i%3, plies: ev.Pick(r, 30, 60), tt: []int{32000, 1 << 20}[i%2]}
		g.noCounters = i%2 == 1
		gs = append(gs, g)
	}
	// games that run into the fifty-move rule and into repetitions
	for _, fen := range []string{"7k/8/8/8/8/8/r7/1R5K w - - 94 70", "8/8/4k3/8/8/3RK3/8/8 w - - 95 60", "6k1/5ppp/8/8/8/8/5PPP/3Q2K1 w - - 90 1", "4k3/8/8/8/8/8/8/3QK3 w - - 96 1"} {
		for _, soft := range []int{5, 12, 40, 300} {
			gs = append(gs, c08Game{start: searchReq{FEN: fen}, soft: soft, depth: 6, plies: 14, tt: 32000})
		}
	}
	// games under hard budgets that cut the search in the middle of an iteration (mid-line aborts), and under
	// budgets so small that no iteration completes (the fallback move path)
	for i, hard := range []int{37, 113, 517, 2222, 9000, 1, 3, 7, 12, 20} {
		for k := 0; k < ev.Pick(r, 2, 6); k++ {
			gs = append(gs, c08Game{start: searchReq{FEN: br[(i*5+k*11+int(r.Seed))%len(br)].FEN}, hard: hard, depth: 7, plies: ev.Pick(r, 24, 60), tt: []int{32000, 1 << 20}[k%2], noCounters: k%2 == 1})
		}
	}
	return gs
}

// c08PlayGame plays one game with three identically driven instances:
// A and C get the same soft-limited requests (must agree exactly), B replays
// each of A's searches with a hard budget equal to the nodes A used.
// It returns the transcript (used by the concurrency pass).
func c08PlayGame(r *ev.Run, g c08Game, judge bool, counters *[4]atomic.Int64) string {
	hA, err := newHistory(g.start.FEN, g.start.Moves)
	if err != nil {
		return ""
	}
	hB, _ := newHistory(g.start.FEN, g.start.Moves)
	hC, _ := newHistory(g.start.FEN, g.start.Moves)
	sA, sB, sC, sD := search.New(g.tt), search.New(g.tt), search.New(g.tt), search.New(g.tt)
	hD, _ := newHistory(g.start.FEN, g.start.Moves)
	var soft, hard []searchReq
	moves := append([]string(nil), g.start.Moves...)
	var transcript strings.Builder
	for ply := 0; ply < g.plies; ply++ {
		if judge && r.Expired() {
			break
		}
		q := searchReq{FEN: g.start.FEN, Moves: append([]string(nil), moves...), Depth: g.depth, Nodes: -1, SoftNodes: g.soft, TT: g.tt, NoCounters: g.noCounters}
		if g.hard > 0 {
			q.Nodes, q.SoftNodes = g.hard, -1
		}
		rA := runSearch(sA, hA.B, q)
		oA := c08Observe(sA, &rA)
		fmt.Fprintf(&transcript, "%d %d %d %d\n%s", oA.Score, oA.Move, oA.Ponder, oA.Nodes, oA.Out)
		soft = append(soft, q)
		if judge {
			counters[0].Add(1)
			rC := runSearch(sC, hC.B, q)
			oC := c08Observe(sC, &rC)
			if d := oA.diff(oC, true); d != "" {
				r.Fail("twin", c08Case{Kind: "twin", Requests: append([]searchReq(nil), soft...)}, "two instances driven identically differ at search %d of the game from %s: %s", ply, g.start.FEN, d)
				return transcript.String()
			}
			// the sink of the reported lines is not among the things a result may depend on: the same request with
			// no output attached (datagen's way of calling) on a fourth identically driven instance
			qq := q
			qq.NoOutput, qq.NoCounters = true, false
			rD := runSearch(sD, hD.B, qq)
			oD := c08Observe(sD, &rD)
			if !g.noCounters {
				oq := oA
				oq.Out = ""
				if d := oq.diff(oD, false); d != "" {
					r.Fail("output-sink", c08Case{Kind: "output-sink", Requests: append([]searchReq(nil), soft...)}, "search %d of the game from %s: with and without an output sink the same request gives different results: %s", ply, g.start.FEN, d)
					return transcript.String()
				}
			}
			if g.hard > 0 {
				counters[3].Add(1)
				if !g.noCounters && oA.Nodes > g.hard {
					r.Fail("budget-exceeded", c08Case{Kind: "twin", Requests: append([]searchReq(nil), soft...)}, "hard budget %d nodes, %d counted", g.hard, oA.Nodes)
				}
				goto played
			}
			// soft -> hard: the search that ended after N nodes, replayed with a hard budget of N
			hq := q
			hq.Nodes, hq.SoftNodes = oA.Nodes, -1
			rB := runSearch(sB, hB.B, hq)
			oB := c08Observe(sB, &rB)
			hard = append(hard, hq)
			counters[1].Add(1)
			if rB.aborted() {
				counters[2].Add(1)
			}
			if oB.Nodes > hq.Nodes {
				r.Fail("budget-exceeded", c08Case{Kind: "soft-hard", Requests: append([]searchReq(nil), soft...)}, "hard budget %d nodes, %d counted", hq.Nodes, oB.Nodes)
			}
			a2, b2 := oA, oB
			a2.Out, b2.Out = completedLines(oA.Out), completedLines(oB.Out)
			if d := a2.diff(b2, true); d != "" {
				r.Fail("soft-hard", c08Case{Kind: "soft-hard", Requests: append([]searchReq(nil), soft...)}, "search %d of the game from %s ended at its soft limit after %d nodes; the replay with a hard budget of %d differs: %s", ply, g.start.FEN, oA.Nodes, oA.Nodes, d)
				return transcript.String()
			}
		}
	played:
		if rA.Move == 0 {
			break
		}
		ms := rA.Move.String()
		if hA.play(ms) != nil {
			break
		}
		hB.play(ms)
		hC.play(ms)
		hD.play(ms)
		moves = append(moves, ms)
	}
	if judge && !r.Expired() {
		// between games: an instance that played a game and was cleared is in the state of a fresh instance,
		// and must answer the next request exactly like one (no hidden state survives Clear)
		sA.Clear()
		fresh := search.New(g.tt)
		hF, _ := newHistory(g.start.FEN, g.start.Moves)
		hG, _ := newHistory(g.start.FEN, g.start.Moves)
		q := searchReq{FEN: g.start.FEN, Moves: g.start.Moves, Depth: 5, Nodes: -1, SoftNodes: -1, TT: g.tt}
		rU := runSearch(sA, hF.B, q)
		rF := runSearch(fresh, hG.B, q)
		if d := c08Observe(sA, &rU).diff(c08Observe(fresh, &rF), true); d != "" {
			r.Fail("cleared-vs-fresh", c08Case{Kind: "cleared-vs-fresh", Requests: append(append([]searchReq(nil), soft...), q)}, "after the game from %s and Clear(), the instance answers differently from a fresh one: %s", g.start.FEN, d)
		}
	}
	return transcript.String()
}

func runC08(r *ev.Run) {
	var counters [4]atomic.Int64
	games := c08Games(r)
	transcripts := make([]string, len(games))
	ev.Parallel(len(games), func(worker, item int) {
		transcripts[item] = c08PlayGame(r, games[item], true, &counters)
		if item%10 == 0 {
			r.Sample(map[string]any{"game_from": games[item].start.FEN, "soft_nodes": games[item].soft, "depth": games[item].depth, "plies": games[item].plies, "tt": games[item].tt})
		}
	})

	// every iteration boundary j of a search: fresh instances, soft limit firing after iteration j vs hard budget n_j,
	// followed by a second search on both (the state left behind observed behaviourally as well)
	var boundaries, midBudgets atomic.Int64
	roots := universe.AllRoots()
	step := ev.Pick(r, 3, 1)
	ev.Parallel(len(roots), func(worker, item int) {
		if item%step != int(r.Seed)%step || r.Expired() {
			return
		}
		root := roots[item]
		h, _ := newHistory(root.FEN, nil)
		tt := 32000
		full := runSearch(search.New(tt), h.B, searchReq{FEN: root.FEN, Depth: 6, Nodes: -1, SoftNodes: -1, TT: tt})
		// budgets strictly between two iteration boundaries cut the search in the middle of a line; whatever such a
		// search leaves behind outside the stored state must not survive: after Clear() the instance answers like a fresh one
		prev := 0
		for _, il := range full.Infos {
			if !il.Complete || il.Nodes == 0 || r.Expired() {
				continue
			}
			if mid := (prev + il.Nodes) / 2; mid > prev && mid < il.Nodes {
				sM, fresh := search.New(tt), search.New(tt)
				for k := 0; k < 3; k++ {
					runSearch(sM, h.B, searchReq{FEN: root.FEN, Depth: 6, Nodes: mid + k, SoftNodes: -1, TT: tt})
				}
				sM.Clear()
				fq := searchReq{FEN: root.FEN, Depth: 4, Nodes: -1, SoftNodes: -1, TT: tt}
				fM := runSearch(sM, h.B, fq)
				fF := runSearch(fresh, h.B, fq)
				midBudgets.Add(1)
				if d := c08Observe(sM, &fM).diff(c08Observe(fresh, &fF), true); d != "" {
					r.Fail("cleared-vs-fresh", c08Case{Kind: "cleared-vs-fresh", Requests: []searchReq{{FEN: root.FEN, Depth: 6, Nodes: mid, SoftNodes: -1, TT: tt}, fq}}, "%s: after three searches cut mid-iteration by hard budgets %d..%d and Clear(), the instance answers differently from a fresh one: %s", root.FEN, mid, mid+2, d)
				}
			}
			prev = il.Nodes
		}
		for _, il := range full.Infos {
			if !il.Complete || il.Nodes == 0 {
				continue
			}
			boundaries.Add(1)
			sq := searchReq{FEN: root.FEN, Depth: 6, Nodes: -1, SoftNodes: il.Nodes - 1, TT: tt}
			hq := searchReq{FEN: root.FEN, Depth: 6, Nodes: il.Nodes, SoftNodes: -1, TT: tt}
			sA, sB := search.New(tt), search.New(tt)
			rA := runSearch(sA, h.B, sq)
			oA := c08Observe(sA, &rA)
			if oA.Nodes != il.Nodes {
				hq.Nodes = oA.Nodes // the soft limit fired at another boundary (equal node counts of two iterations)
			}
			rB := runSearch(sB, h.B, hq)
			oB := c08Observe(sB, &rB)
			a2, b2 := oA, oB
			a2.Out, b2.Out = completedLines(oA.Out), completedLines(oB.Out)
			if d := a2.diff(b2, true); d != "" {
				r.Fail("soft-hard", c08Case{Kind: "soft-hard", Requests: []searchReq{sq}}, "%s: soft limit after iteration %d (%d nodes) vs hard budget: %s", root.FEN, il.Depth, oA.Nodes, d)
				continue
			}
			// follow-up search on both
			fq := searchReq{FEN: root.FEN, Depth: 4, Nodes: -1, SoftNodes: -1, TT: tt}
			fA := runSearch(sA, h.B, fq)
			fB := runSearch(sB, h.B, fq)
			if d := c08Observe(sA, &fA).diff(c08Observe(sB, &fB), true); d != "" {
				r.Fail("soft-hard-followup", c08Case{Kind: "soft-hard", Requests: []searchReq{sq, fq}}, "%s: after a soft-limited search and its hard-budget replay, the next search differs: %s", root.FEN, d)
			}
		}
	})

	// counter boundaries: the generation counter is 8 bits wide; instances that have made 255, 256, 257, 512 and 513
	// searches since their last Clear() are cleared and must answer like a fresh instance (and like their twin)
	var genRuns atomic.Int64
	genCounts := []int{255, 256, 257, 512, 513}
	ev.Parallel(len(genCounts)*2, func(worker, item int) {
		n, tt := genCounts[item/2], []int{32000, 1 << 20}[item%2]
		warm := []string{"8/8/8/4k3/8/8/4P3/4K3 w - - 0 1", "4k3/8/8/8/8/8/8/4K2R w K - 0 1", "r3k2r/8/8/8/8/3r4/8/R3K2R w KQkq - 0 1", "8/P7/8/8/8/8/7p/K1k5 w - - 0 1"}
		sA, sB, fresh := search.New(tt), search.New(tt), search.New(tt)
		var reqs []searchReq
		for i := 0; i < n; i++ {
			q := searchReq{FEN: warm[i%len(warm)], Depth: 1 + i%3, Nodes: -1, SoftNodes: -1, TT: tt}
			h, _ := newHistory(q.FEN, nil)
			rA := runSearch(sA, h.B, q)
			rB := runSearch(sB, h.B, q)
			reqs = append(reqs, q)
			genRuns.Add(2)
			if i >= n-3 {
				if d := c08Observe(sA, &rA).diff(c08Observe(sB, &rB), true); d != "" {
					r.Fail("twin", c08Case{Kind: "twin", Requests: reqs}, "two instances driven identically differ at search %d: %s", i, d)
					return
				}
			}
		}
		sA.Clear()
		q := searchReq{FEN: "r1bqkbnr/pppp1ppp/2n5/4p3/4P3/5N2/PPPP1PPP/RNBQKB1R w KQkq - 2 3", Depth: 5, Nodes: -1, SoftNodes: -1, TT: tt}
		h, _ := newHistory(q.FEN, nil)
		rU := runSearch(sA, h.B, q)
		rF := runSearch(fresh, h.B, q)
		if d := c08Observe(sA, &rU).diff(c08Observe(fresh, &rF), true); d != "" {
			r.Fail("cleared-vs-fresh", c08Case{Kind: "cleared-vs-fresh", Requests: append(reqs, q)}, "after %d searches and Clear(), the instance answers differently from a fresh one: %s", n, d)
		}
	})
	r.Set("generation_boundary_searches", genRuns.Load())

	// the hard budget also holds while pondering (the engine neither counts nor aborts then): a pondering search with
	// budget N, stopped later from outside, never reports more than N nodes (the assertion does not depend on timing)
	var ponderRuns atomic.Int64
	ev.Parallel(len(roots), func(worker, item int) {
		if item%6 != int(r.Seed)%6 || r.Expired() {
			return
		}
		for _, budget := range []int{0, 9, 150} {
			h, err := newHistory(roots[item].FEN, nil)
			if err != nil {
				return
			}
			stop := make(chan struct{})
			ph := make(chan time.Time, 1)
			var cnt search.Counters
			var out bytes.Buffer
			done := make(chan struct{})
			go func() {
				search.New(32000).Go(h.B, search.WithOutput(&out), search.WithCounters(&cnt), search.WithDepth(3), search.WithNodes(budget), search.WithPonderHit(ph), search.WithStop(stop))
				close(done)
			}()
			time.Sleep(3 * time.Millisecond)
			close(stop)
			<-done
			ponderRuns.Add(1)
			if cnt.Nodes > budget {
				r.Fail("budget-exceeded-while-pondering", c08Case{Kind: "ponder-budget", Requests: []searchReq{{FEN: roots[item].FEN, Depth: 3, Nodes: budget}}}, "%s: pondering search with a hard budget of %d nodes counted %d", roots[item].FEN, budget, cnt.Nodes)
			}
			if infos, _ := parseInfo(out.String()); len(infos) > 0 && infos[len(infos)-1].Nodes > budget {
				r.Fail("budget-exceeded-while-pondering", c08Case{Kind: "ponder-budget", Requests: []searchReq{{FEN: roots[item].FEN, Depth: 3, Nodes: budget}}}, "%s: pondering search with a hard budget of %d nodes reports %d", roots[item].FEN, budget, infos[len(infos)-1].Nodes)
			}
		}
	})
	r.Set("pondering_budget_runs", ponderRuns.Load())

	// schedules: the same games on free-running goroutines, transcripts must equal the sequential ones
	conc := c08Concurrent(r, games, transcripts)

	// schedules, in-family: two instances interleaved at poll granularity under the controlled scheduler
	schedExecs, schedInfo := c08SchedPass(r)
	r.Set("interleaving_exploration", schedInfo)

	// complementary pass: the same concurrent body under the race detector (separate binary)
	raceInfo := c08RacePass(r)

	r.Evals.Store(counters[0].Load()*3 + boundaries.Load()*4 + conc + schedExecs)
	r.Nontrivial.Store(counters[2].Load() + boundaries.Load())
	r.States.Store(counters[0].Load())
	r.Transitions.Store(counters[0].Load()*3 + boundaries.Load()*4)
	r.Validated.Store(counters[1].Load() + boundaries.Load())
	r.Set("game_searches", counters[0].Load())
	r.Set("soft_hard_twins", counters[1].Load()+boundaries.Load())
	r.Set("iteration_boundaries_enumerated", boundaries.Load())
	r.Set("mid_iteration_budgets_then_clear", midBudgets.Load())
	r.Set("hard_budget_game_searches", counters[3].Load())
	r.Set("concurrent_game_replays", conc)
	r.Set("race_pass", raceInfo)
	r.Set("distinct_outcomes", map[string]int64{"hard_twins_that_aborted": counters[2].Load()})
	r.Set("exhaustive", false)
	r.Set("rule", "histories: engine-vs-engine games (tables carried over) where every search runs on two identically driven instances (results, reported lines with the time field masked, table/history/generation digests must be equal) and is replayed on a third with a hard budget equal to the nodes used (same result, same state left behind, budget never exceeded); every iteration boundary of a depth-6 search from the root corpus: soft limit firing after iteration j vs hard budget n_j, plus a follow-up search on both; further games under hard budgets that cut every search mid-iteration (37..9000 nodes) or before any iteration completes (1..20 nodes, the fallback move path), twins must agree; after every game, after searches cut between two iteration boundaries and after 255/256/257/512/513 searches (the generation counter is 8 bits wide), Clear() must leave an instance that answers like a fresh one; a fourth instance gets every request with no output sink attached (same result, nodes and state); half of the games call the search without WithCounters (as the UCI driver does); a pondering search with a hard budget stopped from outside never counts more than the budget; schedules: all games replayed on free-running goroutines must reproduce the sequential transcripts (complementary: the same body under the race detector); two instances interleaved at every poll of the instrumented search within the preemption bound must each reproduce their solo run")
	r.Assume("state left behind observed through the verif digests (table bytes, history tables, generation) and behaviourally by the following searches of the same game")
}

// c08Concurrent replays all games concurrently (no judge) and compares transcripts.
func c08Concurrent(r *ev.Run, games []c08Game, want []string) int64 {
	var n atomic.Int64
	rounds := ev.Pick(r, 2, 4)
	for round := 0; round < rounds && !r.Expired(); round++ {
		var wg sync.WaitGroup
		got := make([]string, len(games))
		for i := range games {
			wg.Add(1)
			go func(i int) {
				defer wg.Done()
				defer ev.Guard()
				got[i] = c08PlayGame(r, games[i], false, nil)
			}(i)
		}
		wg.Wait()
		for i := range games {
			n.Add(1)
			if want[i] != "" && got[i] != want[i] {
				r.Fail("concurrent-differs", c08Case{Kind: "concurrent", Requests: []searchReq{games[i].start}}, "game from %s (soft %d): the transcript of a run concurrent with %d other engine instances differs from the sequential one:\n%s", games[i].start.FEN, games[i].soft, len(games)-1, firstDiffLine(want[i], got[i]))
				break
			}
		}
	}
	return n.Load()
}

func firstDiffLine(a, b string) string {
	al, bl := strings.Split(a, "\n"), strings.Split(b, "\n")
	for i := 0; i < min(len(al), len(bl)); i++ {
		if al[i] != bl[i] {
			return fmt.Sprintf("line %d: %q vs %q", i, al[i], bl[i])
		}
	}
	return fmt.Sprintf("lengths %d vs %d lines", len(al), len(bl))
}

// runC08Race is the body executed under the race detector by the race binary.
func runC08Race(r *ev.Run) {
	all := c08Games(r)
	games := append([]c08Game(nil), all[:8]...)
	for _, g := range all {
		if g.hard > 0 && g.hard <= 20 && len(games) < 24 {
			games = append(games, g) // no iteration completes: the fallback move path of concurrent instances
		}
	}
	var wg sync.WaitGroup
	for i := range games {
		wg.Add(1)
		go func(i int) {
			defer wg.Done()
			defer ev.Guard()
			g := games[i]
			g.plies = min(g.plies, 6+g.hard)
			c08PlayGame(r, g, false, nil)
		}(i)
	}
	wg.Wait()
	fmt.Println("C08race done")
	os.Exit(0)
}

// c08RacePass runs the race binary if bin/check built it.
func c08RacePass(r *ev.Run) string {
	bin := filepath.Join(ev.Root, ".build", "verifcheck-race")
	if _, err := os.Stat(bin); err != nil {
		return "race binary not built (run through bin/check)"
	}
	cmd := exec.Command(bin, "C08race", r.Tier)
	cmd.Env = append(os.Environ(), "GORACE=halt_on_error=0 exitcode=0")
	out, err := cmd.CombinedOutput()
	text := string(out)
	if strings.Contains(text, "DATA RACE") {
		ix := strings.Index(text, "WARNING: DATA RACE")
		r.Fail("data-race", c08Case{Kind: "concurrent"}, "race detector report while up to 24 engine instances search concurrently:\n%s", firstLines(text[ix:], 30))
		return "race reported"
	}
	if err != nil || !strings.Contains(text, "C08race done") {
		return "race binary failed: " + trunc(text)
	}
	return "up to 24 concurrent instances (8 soft-limited games, the rest under hard budgets below 21 nodes), no race reported (silence proves nothing)"
}
