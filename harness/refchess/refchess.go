// Package refchess is the reference model of the rules of chess used by the
// verification harness. It is deliberately boring: a mailbox board, attacks
// found by walking rays square by square, legal moves found by playing every
// candidate on a copy and looking whether the mover's king is attacked. It
// shares no code and no technique (no bitboards, no tables) with the engine.
package refchess

import (
	"fmt"
	"strconv"
	"strings"
)

// Piece kinds use the same numbering as the engine (chess.Piece) so that
// moves can be compared without a translation table.
const (
	Empty  = 0
	Pawn   = 1
	Knight = 2
	Bishop = 3
	Rook   = 4
	Queen  = 5
	King   = 6
)

const (
	White = 0
	Black = 1
)

// Castling right bits, same bit order as the engine's chess.Castles.
const (
	WK = 1
	WQ = 2
	BK = 4
	BQ = 8
)

// Pos is a chess position. Sq holds 0 for empty, +kind for White, -kind for
// Black. Ep is the FIDE-style en-passant target (square passed over by the
// pawn that just double-pushed) or -1.
type Pos struct {
	Sq     [64]int8
	Stm    int8
	Castle uint8
	Ep     int8
	Half   int
	Full   int
}

// Move is from/to/promotion-kind (0 or Knight..Queen).
type Move struct {
	From, To, Promo int8
}

func (m Move) String() string {
	s := SqName(int(m.From)) + SqName(int(m.To))
	if m.Promo != 0 {
		s += string(" pnbrqk"[m.Promo])
	}
	return s
}

// Enc is the engine's 15-bit encoding of m: to | from<<6 | promo<<12.
func (m Move) Enc() uint16 { return uint16(m.To) | uint16(m.From)<<6 | uint16(m.Promo)<<12 }

// Dec decodes a 15-bit encoding.
func Dec(e uint16) Move {
	return Move{From: int8((e >> 6) & 63), To: int8(e & 63), Promo: int8((e >> 12) & 7)}
}

func SqName(s int) string { return string([]byte{byte('a' + s%8), byte('1' + s/8)}) }

func file(s int) int { return s & 7 }
func rank(s int) int { return s >> 3 }
func on(f, r int) bool { return f >= 0 && f < 8 && r >= 0 && r < 8 }

func colorOf(p int8) int {
	if p > 0 {
		return White
	}
	return Black
}

func kind(p int8) int8 {
	if p < 0 {
		return -p
	}
	return p
}

func mk(color int, k int8) int8 {
	if color == White {
		return k
	}
	return -k
}

var knightD = [8][2]int{{1, 2}, {2, 1}, {2, -1}, {1, -2}, {-1, -2}, {-2, -1}, {-2, 1}, {-1, 2}}
var kingD = [8][2]int{{1, 0}, {1, 1}, {0, 1}, {-1, 1}, {-1, 0}, {-1, -1}, {0, -1}, {1, -1}}
var rookD = [4][2]int{{1, 0}, {-1, 0}, {0, 1}, {0, -1}}
var bishopD = [4][2]int{{1, 1}, {1, -1}, {-1, 1}, {-1, -1}}

// Attacked reports whether square s is attacked by a man of colour by.
func (p *Pos) Attacked(s int, by int) bool {
	f, r := file(s), rank(s)
	// pawns: a white pawn on (f±1, r-1) attacks (f, r)
	pr := r - 1
	if by == Black {
		pr = r + 1
	}
	for _, df := range [2]int{-1, 1} {
		if on(f+df, pr) && p.Sq[pr*8+f+df] == mk(by, Pawn) {
			return true
		}
	}
	for _, d := range knightD {
		if on(f+d[0], r+d[1]) && p.Sq[(r+d[1])*8+f+d[0]] == mk(by, Knight) {
			return true
		}
	}
	for _, d := range kingD {
		if on(f+d[0], r+d[1]) && p.Sq[(r+d[1])*8+f+d[0]] == mk(by, King) {
			return true
		}
	}
	for _, d := range rookD {
		ff, rr := f+d[0], r+d[1]
		for on(ff, rr) {
			q := p.Sq[rr*8+ff]
			if q != 0 {
				if q == mk(by, Rook) || q == mk(by, Queen) {
					return true
				}
				break
			}
			ff += d[0]
			rr += d[1]
		}
	}
	for _, d := range bishopD {
		ff, rr := f+d[0], r+d[1]
		for on(ff, rr) {
			q := p.Sq[rr*8+ff]
			if q != 0 {
				if q == mk(by, Bishop) || q == mk(by, Queen) {
					return true
				}
				break
			}
			ff += d[0]
			rr += d[1]
		}
	}
	return false
}

// KingSq returns the square of the king of colour c, or -1.
func (p *Pos) KingSq(c int) int {
	k := mk(c, King)
	for s := 0; s < 64; s++ {
		if p.Sq[s] == k {
			return s
		}
	}
	return -1
}

// InCheck reports whether the king of colour c is attacked.
func (p *Pos) InCheck(c int) bool {
	k := p.KingSq(c)
	return k >= 0 && p.Attacked(k, c^1)
}

// PseudoMoves appends the candidate moves of the side to move by piece
// geometry (including castling with its full conditions, since castling out
// of / through check is not a "pseudo-legal" notion of FIDE).
func (p *Pos) PseudoMoves(out []Move) []Move {
	me := int(p.Stm)
	for s := 0; s < 64; s++ {
		q := p.Sq[s]
		if q == 0 || colorOf(q) != me {
			continue
		}
		f, r := file(s), rank(s)
		switch kind(q) {
		case Pawn:
			dr, start, last := 1, 1, 7
			if me == Black {
				dr, start, last = -1, 6, 0
			}
			addP := func(to int) {
				if rank(to) == last {
					for pk := int8(Queen); pk >= Knight; pk-- {
						out = append(out, Move{int8(s), int8(to), pk})
					}
				} else {
					out = append(out, Move{int8(s), int8(to), 0})
				}
			}
			if on(f, r+dr) && p.Sq[(r+dr)*8+f] == 0 {
				addP((r+dr)*8 + f)
				if r == start && p.Sq[(r+2*dr)*8+f] == 0 {
					out = append(out, Move{int8(s), int8((r+2*dr)*8 + f), 0})
				}
			}
			for _, df := range [2]int{-1, 1} {
				if !on(f+df, r+dr) {
					continue
				}
				to := (r+dr)*8 + f + df
				t := p.Sq[to]
				if t != 0 && colorOf(t) != me {
					addP(to)
				} else if t == 0 && int(p.Ep) == to && p.epWellFormed() {
					out = append(out, Move{int8(s), int8(to), 0})
				}
			}
		case Knight:
			for _, d := range knightD {
				if on(f+d[0], r+d[1]) {
					to := (r+d[1])*8 + f + d[0]
					if t := p.Sq[to]; t == 0 || colorOf(t) != me {
						out = append(out, Move{int8(s), int8(to), 0})
					}
				}
			}
		case King:
			for _, d := range kingD {
				if on(f+d[0], r+d[1]) {
					to := (r+d[1])*8 + f + d[0]
					if t := p.Sq[to]; t == 0 || colorOf(t) != me {
						out = append(out, Move{int8(s), int8(to), 0})
					}
				}
			}
			out = p.castling(out, s)
		default:
			var dirs [][2]int
			k := kind(q)
			if k == Rook || k == Queen {
				dirs = append(dirs, rookD[:]...)
			}
			if k == Bishop || k == Queen {
				dirs = append(dirs, bishopD[:]...)
			}
			for _, d := range dirs {
				ff, rr := f+d[0], r+d[1]
				for on(ff, rr) {
					to := rr*8 + ff
					t := p.Sq[to]
					if t == 0 {
						out = append(out, Move{int8(s), int8(to), 0})
					} else {
						if colorOf(t) != me {
							out = append(out, Move{int8(s), int8(to), 0})
						}
						break
					}
					ff += d[0]
					rr += d[1]
				}
			}
		}
	}
	return out
}

// epWellFormed: the en-passant target is directly behind an enemy pawn that
// could just have double-pushed (so that a capture removes a real pawn).
func (p *Pos) epWellFormed() bool {
	if p.Ep < 0 {
		return false
	}
	e := int(p.Ep)
	if p.Stm == White {
		return rank(e) == 5 && p.Sq[e-8] == -Pawn && p.Sq[e] == 0 && p.Sq[e+8] == 0
	}
	return rank(e) == 2 && p.Sq[e+8] == Pawn && p.Sq[e] == 0 && p.Sq[e-8] == 0
}

func (p *Pos) castling(out []Move, s int) []Move {
	me := int(p.Stm)
	home, kbit, qbit := 4, uint8(WK), uint8(WQ)
	if me == Black {
		home, kbit, qbit = 60, BK, BQ
	}
	if s != home || p.Sq[home] != mk(me, King) {
		return out
	}
	if p.Attacked(home, me^1) {
		return out
	}
	if p.Castle&kbit != 0 && p.Sq[home+3] == mk(me, Rook) && p.Sq[home+1] == 0 && p.Sq[home+2] == 0 &&
		!p.Attacked(home+1, me^1) && !p.Attacked(home+2, me^1) {
		out = append(out, Move{int8(home), int8(home + 2), 0})
	}
	if p.Castle&qbit != 0 && p.Sq[home-4] == mk(me, Rook) && p.Sq[home-1] == 0 && p.Sq[home-2] == 0 && p.Sq[home-3] == 0 &&
		!p.Attacked(home-1, me^1) && !p.Attacked(home-2, me^1) {
		out = append(out, Move{int8(home), int8(home - 2), 0})
	}
	return out
}

// LegalMoves returns the legal moves of the side to move.
func (p *Pos) LegalMoves(out []Move) []Move {
	var buf [256]Move
	cand := p.PseudoMoves(buf[:0])
	me := int(p.Stm)
	for _, m := range cand {
		n := p.Make(m)
		if !n.InCheck(me) {
			out = append(out, m)
		}
	}
	return out
}

// HasLegalMove is LegalMoves with early exit.
func (p *Pos) HasLegalMove() bool {
	var buf [256]Move
	cand := p.PseudoMoves(buf[:0])
	me := int(p.Stm)
	for _, m := range cand {
		n := p.Make(m)
		if !n.InCheck(me) {
			return true
		}
	}
	return false
}

// Make plays m (assumed to be one of PseudoMoves) and returns the successor:
// placement, side, rights, clocks and FIDE-style en-passant target.
func (p *Pos) Make(m Move) Pos {
	n := *p
	me := int(p.Stm)
	from, to := int(m.From), int(m.To)
	q := p.Sq[from]
	k := kind(q)
	capture := p.Sq[to] != 0
	n.Sq[from] = 0
	if k == Pawn && to == int(p.Ep) && p.Sq[to] == 0 && file(from) != file(to) {
		// en passant: the captured pawn stands beside the capturer
		n.Sq[rank(from)*8+file(to)] = 0
		capture = true
	}
	if m.Promo != 0 {
		n.Sq[to] = mk(me, m.Promo)
	} else {
		n.Sq[to] = q
	}
	if k == King && from == 4+56*me {
		switch to - from {
		case 2:
			n.Sq[from+3] = 0
			n.Sq[from+1] = mk(me, Rook)
		case -2:
			n.Sq[from-4] = 0
			n.Sq[from-1] = mk(me, Rook)
		}
	}
	// rights: lost when the king moves, when a rook leaves its home square
	// and when a rook is captured on its home square.
	if k == King {
		if me == White {
			n.Castle &^= WK | WQ
		} else {
			n.Castle &^= BK | BQ
		}
	}
	for _, sq := range [2]int{from, to} {
		switch sq {
		case 0:
			n.Castle &^= WQ
		case 7:
			n.Castle &^= WK
		case 56:
			n.Castle &^= BQ
		case 63:
			n.Castle &^= BK
		}
	}
	n.Ep = -1
	if k == Pawn && (to-from == 16 || from-to == 16) {
		n.Ep = int8((from + to) / 2)
	}
	if k == Pawn || capture {
		n.Half = 0
	} else {
		n.Half = p.Half + 1
	}
	if me == Black {
		n.Full = p.Full + 1
	}
	n.Stm = int8(me ^ 1)
	return n
}

// EPCapturable reports whether a legal en-passant capture exists.
func (p *Pos) EPCapturable() bool {
	if p.Ep < 0 || !p.epWellFormed() {
		return false
	}
	var buf [64]Move
	for _, m := range p.LegalMoves(buf[:0]) {
		if int(m.To) == int(p.Ep) && kind(p.Sq[m.From]) == Pawn && file(int(m.From)) != file(int(m.To)) {
			return true
		}
	}
	return false
}

// Normalized returns p with the en-passant target kept only if capturable
// (the engine's convention for positions reached by play).
func (p *Pos) Normalized() Pos {
	n := *p
	if !n.EPCapturable() {
		n.Ep = -1
	}
	return n
}

// Key identifies a position for repetition purposes: placement, side,
// rights, en-passant capturability.
type Key struct {
	Sq     [64]int8
	Stm    int8
	Castle uint8
	Ep     int8
}

func (p *Pos) Key() Key {
	k := Key{Sq: p.Sq, Stm: p.Stm, Castle: p.Castle, Ep: -1}
	if p.EPCapturable() {
		k.Ep = p.Ep
	}
	return k
}

// Valid is the validity predicate of the property quantifiers.
func (p *Pos) Valid() bool {
	var cnt [2][7]int
	for s := 0; s < 64; s++ {
		q := p.Sq[s]
		if q == 0 {
			continue
		}
		if kind(q) == Pawn && (rank(s) == 0 || rank(s) == 7) {
			return false
		}
		cnt[colorOf(q)][kind(q)]++
	}
	for c := 0; c < 2; c++ {
		if cnt[c][King] != 1 {
			return false
		}
		promoted := max(0, cnt[c][Knight]-2) + max(0, cnt[c][Bishop]-2) + max(0, cnt[c][Rook]-2) + max(0, cnt[c][Queen]-1)
		if cnt[c][Pawn]+promoted > 8 {
			return false
		}
	}
	if p.InCheck(int(p.Stm) ^ 1) {
		return false
	}
	if p.Castle&WK != 0 && (p.Sq[4] != King || p.Sq[7] != Rook) {
		return false
	}
	if p.Castle&WQ != 0 && (p.Sq[4] != King || p.Sq[0] != Rook) {
		return false
	}
	if p.Castle&BK != 0 && (p.Sq[60] != -King || p.Sq[63] != -Rook) {
		return false
	}
	if p.Castle&BQ != 0 && (p.Sq[60] != -King || p.Sq[56] != -Rook) {
		return false
	}
	if p.Ep >= 0 && !p.epWellFormed() {
		return false
	}
	if p.Half < 0 || p.Full < 1 {
		return false
	}
	return true
}

// FEN prints p. The en-passant field is printed FIDE-style (whenever Ep>=0).
func (p *Pos) FEN() string { return string(p.AppendFEN(make([]byte, 0, 90))) }

// AppendFEN appends the FEN of p to buf.
func (p *Pos) AppendFEN(sb []byte) []byte {
	for r := 7; r >= 0; r-- {
		empty := 0
		for f := 0; f < 8; f++ {
			q := p.Sq[r*8+f]
			if q == 0 {
				empty++
				continue
			}
			if empty > 0 {
				sb = append(sb, byte('0'+empty))
				empty = 0
			}
			c := " PNBRQK"[kind(q)]
			if q < 0 {
				c += 'a' - 'A'
			}
			sb = append(sb, c)
		}
		if empty > 0 {
			sb = append(sb, byte('0'+empty))
		}
		if r > 0 {
			sb = append(sb, '/')
		}
	}
	sb = append(sb, ' ', "wb"[p.Stm], ' ')
	if p.Castle == 0 {
		sb = append(sb, '-')
	} else {
		for i := 0; i < 4; i++ {
			if p.Castle&(1<<i) != 0 {
				sb = append(sb, "KQkq"[i])
			}
		}
	}
	sb = append(sb, ' ')
	if p.Ep < 0 {
		sb = append(sb, '-')
	} else {
		sb = append(sb, byte('a'+p.Ep%8), byte('1'+p.Ep/8))
	}
	sb = append(sb, ' ')
	sb = strconv.AppendInt(sb, int64(p.Half), 10)
	sb = append(sb, ' ')
	sb = strconv.AppendInt(sb, int64(p.Full), 10)
	return sb
}

// ParseFEN parses a canonical 6-field FEN (independent of the engine's parser).
func ParseFEN(s string) (Pos, error) {
	var p Pos
	p.Ep = -1
	fs := strings.Fields(s)
	if len(fs) != 6 {
		return p, fmt.Errorf("want 6 fields, got %d", len(fs))
	}
	rows := strings.Split(fs[0], "/")
	if len(rows) != 8 {
		return p, fmt.Errorf("want 8 ranks")
	}
	for i, row := range rows {
		r := 7 - i
		f := 0
		for _, c := range row {
			switch {
			case c >= '1' && c <= '8':
				f += int(c - '0')
			default:
				ix := strings.IndexRune("PNBRQK", c)
				col := White
				if ix < 0 {
					ix = strings.IndexRune("pnbrqk", c)
					col = Black
				}
				if ix < 0 || f > 7 {
					return p, fmt.Errorf("bad placement")
				}
				p.Sq[r*8+f] = mk(col, int8(ix+1))
				f++
			}
		}
		if f != 8 {
			return p, fmt.Errorf("bad rank length")
		}
	}
	switch fs[1] {
	case "w":
		p.Stm = White
	case "b":
		p.Stm = Black
	default:
		return p, fmt.Errorf("bad stm")
	}
	if fs[2] != "-" {
		for _, c := range fs[2] {
			ix := strings.IndexRune("KQkq", c)
			if ix < 0 {
				return p, fmt.Errorf("bad rights")
			}
			p.Castle |= 1 << ix
		}
	}
	if fs[3] != "-" {
		if len(fs[3]) != 2 || fs[3][0] < 'a' || fs[3][0] > 'h' || fs[3][1] < '1' || fs[3][1] > '8' {
			return p, fmt.Errorf("bad ep")
		}
		p.Ep = int8(int(fs[3][1]-'1')*8 + int(fs[3][0]-'a'))
	}
	var err error
	if p.Half, err = strconv.Atoi(fs[4]); err != nil {
		return p, err
	}
	if p.Full, err = strconv.Atoi(fs[5]); err != nil {
		return p, err
	}
	return p, nil
}

// MustFEN parses or panics.
func MustFEN(s string) Pos {
	p, err := ParseFEN(s)
	if err != nil {
		panic(fmt.Sprintf("refchess: %v: %q", err, s))
	}
	return p
}

// Mirror flips ranks and swaps colours, side to move and rights.
func (p *Pos) Mirror() Pos {
	var n Pos
	for s := 0; s < 64; s++ {
		n.Sq[s^56] = -p.Sq[s]
	}
	n.Stm = p.Stm ^ 1
	n.Castle = (p.Castle&3)<<2 | (p.Castle >> 2 & 3)
	n.Ep = -1
	if p.Ep >= 0 {
		n.Ep = p.Ep ^ 56
	}
	n.Half, n.Full = p.Half, p.Full
	return n
}

// Perft counts leaf nodes.
func (p *Pos) Perft(d int) int {
	if d == 0 {
		return 1
	}
	var buf [256]Move
	ms := p.LegalMoves(buf[:0])
	if d == 1 {
		return len(ms)
	}
	n := 0
	for _, m := range ms {
		c := p.Make(m)
		n += c.Perft(d - 1)
	}
	return n
}
