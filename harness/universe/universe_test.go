package universe

import (
	"testing"

	"verif/refchess"
)

func TestRootsValid(t *testing.T) {
	t.Logf("%d roots", len(AllRoots()))
}

func TestClassEnumerationValidAndDistinct(t *testing.T) {
	for _, name := range []string{"KPk", "Kkr", "KRkr"} {
		c := ParseClass(name)
		seen := map[string]bool{}
		n, special := 0, 0
		shards := 64
		if len(c.Men) > 1 {
			shards = 8 // keep the test short: a1..h1 contain the castling shard e1
		}
		for sh := 0; sh < shards; sh++ {
			EnumShard(c, Opts{Shard: sh}, func(p *refchess.Pos) {
				if !p.Valid() {
					t.Fatalf("invalid position enumerated: %s", p.FEN())
				}
				f := p.FEN()
				if seen[f] {
					t.Fatalf("duplicate %s", f)
				}
				seen[f] = true
				n++
				if p.Castle != 0 || p.Ep >= 0 {
					special++
				}
			})
		}
		t.Logf("%s: %d positions (%d with rights/ep) in %d shards", name, n, special, shards)
	}
}
