// Package ev holds what every check shares: tier/seed handling, the evidence
// file, violation and known-finding reporting, replay artefacts, worker pools
// and internal deadlines.
package ev

import (
	"crypto/sha1"
	"encoding/hex"
	"encoding/json"
	"fmt"
	"os"
	"path/filepath"
	"runtime"
	"sort"
	"strconv"
	"sync"
	"sync/atomic"
	"time"
)

// Root of the verification tree. Overridable for tests of the harness itself.
var Root = func() string {
	if r := os.Getenv("VERIF_ROOT"); r != "" {
		return r
	}
	return "/verif"
}()

type failure struct {
	Class  string
	Msg    string
	Replay string
	Count  int64
}

// Run is one execution of one check.
type Run struct {
	ID    string
	Tier  string
	Seed  int64
	Level string

	mu          sync.Mutex
	cov         map[string]any
	samples     []any
	maxSamples  int
	assumptions []string
	fails       map[string]*failure
	failOrder   []string
	known       map[string]*failure
	knownOrder  []string
	start       time.Time
	deadline    time.Time
	cut         atomic.Bool
	knownFile   knownFile
	Evals       atomic.Int64
	Nontrivial  atomic.Int64
	States      atomic.Int64
	Transitions atomic.Int64
	Validated   atomic.Int64
}

type KnownEntry struct {
	Property string `json:"property"`
	Key      string `json:"key"`
	What     string `json:"what"`
}

type knownFile struct {
	Known []KnownEntry `json:"known"`
	Fixed []string     `json:"fixed"`
}

// New creates a run. tier comes from VERIF_TIER, else the argument.
func New(id, tier, level string) *Run {
	if t := os.Getenv("VERIF_TIER"); t == "quick" || t == "thorough" {
		tier = t
	}
	if tier != "thorough" {
		tier = "quick"
	}
	seed, _ := strconv.ParseInt(os.Getenv("VERIF_SEED"), 10, 64)
	r := &Run{ID: id, Tier: tier, Seed: seed, Level: level, cov: map[string]any{}, maxSamples: 8,
		fails: map[string]*failure{}, known: map[string]*failure{}, start: time.Now(), assumptions: []string{}, samples: []any{}}
	budget := 75 * time.Second
	if tier == "thorough" {
		budget = 25 * time.Minute
	}
	if s := os.Getenv("VERIF_BUDGET_S"); s != "" {
		if v, err := strconv.Atoi(s); err == nil {
			budget = time.Duration(v) * time.Second
		}
	}
	r.deadline = r.start.Add(budget)
	// watchdog: every loop of the harness consults Expired(), so a process that is still running long after its
	// internal deadline is stuck inside the code under test (or inside a sub-process of its own). Violations
	// recorded so far are then reported (exit 1); without any there is no verdict (instrument error, exit 2).
	// (top-level checks only: sub-runs - C13sub, C06stop, ... - get their budget from the parent, which watches them)
	topLevel := len(id) == 3
	time.AfterFunc(2*budget+3*time.Minute, func() {
		if !topLevel {
			return
		}
		if r.Failed() {
			fmt.Fprintf(os.Stderr, "watchdog: %s %s still running %v after its internal deadline; reporting what was found\n", id, tier, budget+3*time.Minute)
			r.cut.Store(true)
			r.Finish()
		}
		fmt.Fprintf(os.Stderr, "instrument error: %s %s did not finish within twice its budget plus three minutes and recorded no violation\n", id, tier)
		os.Exit(2)
	})
	if data, err := os.ReadFile(filepath.Join(Root, "known_findings.json")); err == nil {
		if err := json.Unmarshal(data, &r.knownFile); err != nil {
			fmt.Fprintf(os.Stderr, "instrument error: known_findings.json: %v\n", err)
			os.Exit(2)
		}
	}
	return r
}

func (r *Run) Thorough() bool { return r.Tier == "thorough" }

// Pick returns q in the quick tier and t in the thorough tier.
func Pick[T any](r *Run, q, t T) T {
	if r.Thorough() {
		return t
	}
	return q
}

// Expired reports whether the internal deadline has passed. A check that
// stops because of it must call Cut so that the evidence says exhaustive:false.
func (r *Run) Expired() bool {
	if time.Now().After(r.deadline) {
		r.cut.Store(true)
		return true
	}
	return false
}

// Remaining time before the internal deadline.
func (r *Run) Remaining() time.Duration { return time.Until(r.deadline) }

func (r *Run) Cut() { r.cut.Store(true) }

func (r *Run) WasCut() bool { return r.cut.Load() }

// Set records a coverage key.
func (r *Run) Set(key string, v any) {
	r.mu.Lock()
	r.cov[key] = v
	r.mu.Unlock()
}

// Add adds to an integer coverage key.
func (r *Run) Add(key string, n int64) {
	r.mu.Lock()
	old, _ := r.cov[key].(int64)
	r.cov[key] = old + n
	r.mu.Unlock()
}

func (r *Run) Assume(s string) {
	r.mu.Lock()
	r.assumptions = append(r.assumptions, s)
	r.mu.Unlock()
}

// Sample keeps a few of the actual cases explored.
func (r *Run) Sample(x any) {
	r.mu.Lock()
	if len(r.samples) < r.maxSamples {
		r.samples = append(r.samples, x)
	}
	r.mu.Unlock()
}

func (r *Run) NeedSample() bool {
	r.mu.Lock()
	defer r.mu.Unlock()
	return len(r.samples) < r.maxSamples
}

func (r *Run) isKnown(class string) (KnownEntry, bool) {
	for _, k := range r.knownFile.Known {
		if k.Property == r.ID && k.Key == class {
			return k, true
		}
	}
	return KnownEntry{}, false
}

// Fail reports a failing case. class identifies the kind of failure (it is
// matched against known_findings.json; classes not listed there are
// violations). c is the replayable case.
func (r *Run) Fail(class string, c any, format string, args ...any) {
	msg := fmt.Sprintf(format, args...)
	r.mu.Lock()
	defer r.mu.Unlock()
	if _, ok := r.isKnown(class); ok {
		f := r.known[class]
		if f == nil {
			f = &failure{Class: class, Msg: msg}
			r.known[class] = f
			r.knownOrder = append(r.knownOrder, class)
		}
		f.Count++
		return
	}
	f := r.fails[class]
	if f == nil {
		f = &failure{Class: class, Msg: msg}
		r.fails[class] = f
		r.failOrder = append(r.failOrder, class)
		f.Replay = r.writeReplay(class, c, msg)
	}
	f.Count++
}

// Failed reports whether any (non-known) violation has been recorded.
func (r *Run) Failed() bool {
	r.mu.Lock()
	defer r.mu.Unlock()
	return len(r.fails) > 0
}

// FailClasses is the number of distinct violation classes so far.
func (r *Run) FailClasses() int {
	r.mu.Lock()
	defer r.mu.Unlock()
	return len(r.fails)
}

func (r *Run) writeReplay(class string, c any, msg string) string {
	doc := map[string]any{"property": r.ID, "class": class, "message": msg, "case": c}
	data, _ := json.MarshalIndent(doc, "", " ")
	h := sha1.Sum(data)
	dir := filepath.Join(Root, "replays")
	os.MkdirAll(dir, 0o755)
	path := filepath.Join(dir, r.ID+"-"+hex.EncodeToString(h[:6])+".json")
	if err := os.WriteFile(path, data, 0o644); err != nil {
		fmt.Fprintf(os.Stderr, "cannot write replay: %v\n", err)
	}
	return path
}

// Finish writes the evidence file, prints the result lines and exits.
func (r *Run) Finish() {
	wall := time.Since(r.start).Seconds()
	r.mu.Lock()
	cov := r.cov
	if _, ok := cov["evaluations"]; !ok {
		cov["evaluations"] = r.Evals.Load()
	}
	if _, ok := cov["distinct_nontrivial"]; !ok {
		cov["distinct_nontrivial"] = r.Nontrivial.Load()
	}
	if _, ok := cov["states"]; !ok && r.States.Load() > 0 {
		cov["states"] = r.States.Load()
	}
	if _, ok := cov["transitions"]; !ok && r.Transitions.Load() > 0 {
		cov["transitions"] = r.Transitions.Load()
	}
	if _, ok := cov["traces_validated_against_impl"]; !ok && r.States.Load() > 0 {
		cov["traces_validated_against_impl"] = r.Validated.Load()
	}
	cov["samples"] = r.samples
	if _, ok := cov["exhaustive"]; !ok {
		cov["exhaustive"] = !r.cut.Load()
	} else if r.cut.Load() {
		cov["exhaustive"] = false
	}
	if r.cut.Load() {
		cov["cut_by_internal_deadline"] = true
	}
	kf := []string{}
	for _, c := range r.knownOrder {
		kf = append(kf, fmt.Sprintf("%s x%d", c, r.known[c].Count))
	}
	cov["known_findings"] = kf
	nviol := 0
	vl := []map[string]any{}
	for _, c := range r.failOrder {
		f := r.fails[c]
		nviol++
		vl = append(vl, map[string]any{"class": f.Class, "count": f.Count, "message": f.Msg, "replay": f.Replay})
	}
	if len(vl) > 0 {
		cov["violation_classes"] = vl
	}
	doc := map[string]any{
		"property_id": r.ID,
		"tier":        r.Tier,
		"seed":        r.Seed,
		"level":       r.Level,
		"coverage":    cov,
		"assumptions": r.assumptions,
		"wall_s":      wall,
		"violations":  nviol,
	}
	r.mu.Unlock()
	data, err := json.MarshalIndent(doc, "", " ")
	if err != nil {
		fmt.Fprintf(os.Stderr, "instrument error: evidence: %v\n", err)
		os.Exit(2)
	}
	os.MkdirAll(filepath.Join(Root, "evidence"), 0o755)
	if err := os.WriteFile(filepath.Join(Root, "evidence", r.ID+".json"), append(data, '\n'), 0o644); err != nil {
		fmt.Fprintf(os.Stderr, "instrument error: evidence: %v\n", err)
		os.Exit(2)
	}
	for _, c := range r.knownOrder {
		k, _ := r.isKnown(c)
		fmt.Printf("KNOWN-FINDING: property=%s %s (%s; %d cases this run; e.g. %s)\n", r.ID, k.Key, k.What, r.known[c].Count, r.known[c].Msg)
	}
	keys := []string{}
	for k := range cov {
		keys = append(keys, k)
	}
	sort.Strings(keys)
	fmt.Printf("%s %s: evaluations=%v distinct_nontrivial=%v states=%v transitions=%v exhaustive=%v wall=%.1fs violations=%d\n",
		r.ID, r.Tier, cov["evaluations"], cov["distinct_nontrivial"], cov["states"], cov["transitions"], cov["exhaustive"], wall, nviol)
	if nviol > 0 {
		for _, c := range r.failOrder {
			f := r.fails[c]
			fmt.Printf("  violation class %s (x%d): %s\n", f.Class, f.Count, f.Msg)
			fmt.Printf("VIOLATION property=%s replay=%s\n", r.ID, f.Replay)
		}
		os.Exit(1)
	}
	os.Exit(0)
}

// Workers is the degree of parallelism.
func Workers() int {
	if s := os.Getenv("VERIF_WORKERS"); s != "" {
		if v, err := strconv.Atoi(s); err == nil && v > 0 {
			return v
		}
	}
	return runtime.NumCPU()
}

// PanicHook, if set, is offered every panic recovered in a worker: returning true means it has been
// accounted for (e.g. reported as a violation because it originated in the code under test).
var PanicHook func(val any, stack string) bool

// Guard is deferred at the top of goroutines a check starts itself: a panic is offered to PanicHook
// (violation if it originated in the code under test) and is an instrument error otherwise.
func Guard() {
	if e := recover(); e != nil {
		st := make([]byte, 1<<14)
		st = st[:runtime.Stack(st, false)]
		if PanicHook != nil && PanicHook(e, string(st)) {
			return
		}
		fmt.Fprintf(os.Stderr, "instrument error: panic in goroutine: %v\n%s\n", e, st)
		os.Exit(2)
	}
}

// Parallel runs fn(worker, item) for item in [0,n) on Workers() goroutines.
// A panic inside fn is re-raised as an instrument error after all workers
// stopped (checks that want to treat engine panics as violations must
// recover inside fn).
func Parallel(n int, fn func(worker, item int)) {
	w := Workers()
	if w > n {
		w = n
	}
	var next atomic.Int64
	var wg sync.WaitGroup
	var pmu sync.Mutex
	var pval any
	var pstack []byte
	for i := 0; i < w; i++ {
		wg.Add(1)
		go func(worker int) {
			defer wg.Done()
			defer func() {
				if e := recover(); e != nil {
					st := make([]byte, 1<<14)
					st = st[:runtime.Stack(st, false)]
					if PanicHook != nil && PanicHook(e, string(st)) {
						return
					}
					pmu.Lock()
					if pval == nil {
						pval = e
						pstack = st
					}
					pmu.Unlock()
				}
			}()
			for {
				it := int(next.Add(1) - 1)
				if it >= n {
					return
				}
				fn(worker, it)
			}
		}(i)
	}
	wg.Wait()
	if pval != nil {
		fmt.Fprintf(os.Stderr, "instrument error: panic in worker: %v\n%s\n", pval, pstack)
		os.Exit(2)
	}
}

// Catch runs f and returns the recovered panic value and stack, if any.
func Catch(f func()) (p any, stack string) {
	defer func() {
		if e := recover(); e != nil {
			p = e
			buf := make([]byte, 1<<13)
			stack = string(buf[:runtime.Stack(buf, false)])
		}
	}()
	f()
	return nil, ""
}

// LoadReplay reads the "case" of a replay file into v and returns class.
func LoadReplay(path string, v any) (string, error) {
	data, err := os.ReadFile(path)
	if err != nil {
		return "", err
	}
	var doc struct {
		Property string          `json:"property"`
		Class    string          `json:"class"`
		Case     json.RawMessage `json:"case"`
	}
	if err := json.Unmarshal(data, &doc); err != nil {
		return "", err
	}
	return doc.Class, json.Unmarshal(doc.Case, v)
}
