# sourced by every script: offline Go environment that can build /repo (go 1.25.4)
export PATH=/root/go/pkg/mod/golang.org/toolchain@v0.0.1-go1.25.4.linux-amd64/bin:$PATH
export GOTOOLCHAIN=local GOFLAGS=-mod=mod GOPROXY=off GOSUMDB=off
export CARGO_NET_OFFLINE=true PIP_NO_INDEX=1
export GOCACHE=${GOCACHE:-/root/.cache/go-build}
