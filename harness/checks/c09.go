package checks

import (
	"encoding/json"
	"fmt"
	"sync/atomic"

	"github.com/paulsonkoly/chess-3/board"

	"verif/eng"
	"verif/ev"
	"verif/refchess"
	"verif/universe"
)

// C09 — IsCheckmate / IsStalemate agree with the absence of legal moves.

type c09Case struct {
	FEN string `json:"fen"`
}

// c09Judge calls the function whose precondition holds and compares.
func c09Judge(b *board.Board, p *refchess.Pos) (string, string) {
	has := p.HasLegalMove()
	if p.InCheck(int(p.Stm)) {
		if got := b.IsCheckmate(); got != !has {
			return "checkmate", fmt.Sprintf("in check, legal move exists=%v, IsCheckmate()=%v", has, got)
		}
	} else {
		if got := b.IsStalemate(); got != !has {
			return "stalemate", fmt.Sprintf("not in check, legal move exists=%v, IsStalemate()=%v", has, got)
		}
	}
	return "", ""
}

func c09Replay(class string, raw json.RawMessage) (bool, string) {
	var c c09Case
	if err := json.Unmarshal(raw, &c); err != nil {
		return false, err.Error()
	}
	p := refchess.MustFEN(c.FEN)
	n := p.Normalized()
	b := eng.Load(&n)
	if cls, msg := c09Judge(b, &n); cls != "" {
		return true, c.FEN + ": " + msg
	}
	return false, "fast tests agree with the legal-move count"
}

func init() {
	register(&Check{ID: "C09", Level: "model_checking", Run: runC09, Replay: c09Replay})
}

func runC09(r *ev.Run) {
	var positions, inCheck, mates, stalemates, epPositions atomic.Int64
	handle := func(b *board.Board, p *refchess.Pos) {
		positions.Add(1)
		chk := p.InCheck(int(p.Stm))
		cls, msg := c09Judge(b, p)
		if chk {
			inCheck.Add(1)
		}
		if cls != "" {
			r.Fail("wrong-"+cls+fmt.Sprintf("/%v", !p.HasLegalMove()), c09Case{FEN: p.FEN()}, "%s: %s", p.FEN(), msg)
			return
		}
		if !p.HasLegalMove() {
			if chk {
				mates.Add(1)
			} else {
				stalemates.Add(1)
			}
		}
	}

	classes := universe.ThreeMan()
	classes = append(classes, parseClasses(seedPick(fourMan, r.Seed, ev.Pick(r, 3, 16)))...)
	r.Set("classes", classNames(classes))
	type worker struct{ ld eng.Loader }
	var sc atomic.Int64
	forClasses(r, classes, universe.Opts{}, func() *worker { return &worker{} }, func(w *worker, p *refchess.Pos) {
		// engine-normalised en-passant state, as the statement requires
		q := p
		if p.Ep >= 0 {
			epPositions.Add(1)
			if !p.EPCapturable() {
				return // the normalised twin (no target) is enumerated separately
			}
		}
		handle(w.ld.Load(q), q)
		if sc.Add(1)%3000000 == 1 {
			r.Sample(map[string]any{"universe": "U1", "fen": q.FEN()})
		}
	})

	// constrained 5-man classes: the lone defending king confined to the a1-d1-d4
	// triangle would lose geometry with pawns, so instead the attacker's king is
	// confined to 4 squares; every other man anywhere.
	five := ev.Pick(r, []string{}, []string{"KRkbn", "KQkrp", "KPkrp", "KNkqr", "KBPkp", "KRPkr"})
	for _, name := range five {
		c := universe.ParseClass(name)
		var jobs []int
		for _, wk := range []int{0, 9, 18, 27} { // a1 b2 c3 d4
			jobs = append(jobs, wk)
		}
		ws := make([]worker, len(jobs))
		ev.Parallel(len(jobs), func(wi, item int) {
			if r.Expired() {
				return
			}
			universe.EnumShard(c, universe.Opts{Shard: jobs[item], NoRights: true}, func(p *refchess.Pos) {
				if r.Expired() {
					return
				}
				if p.Ep >= 0 && !p.EPCapturable() {
					return
				}
				handle(ws[item].ld.Load(p), p)
			})
		})
	}
	r.Set("five_man_constrained", five)

	// U2: dense positions (pins, double checks, blocks by double push) by play
	roots := universe.AllRoots()
	depth := ev.Pick(r, 2, 3)
	var n2 atomic.Int64
	ev.Parallel(len(roots), func(worker, item int) {
		if r.Expired() {
			return
		}
		root := roots[item]
		w := &universe.Walker{}
		w.Visit = func(w *universe.Walker, p *refchess.Pos, left int) bool {
			n2.Add(1)
			n := p.Normalized()
			// the board as reached by play is engine-normalised already
			handle(w.B, &n)
			if n2.Load()%100000 == 1 {
				r.Sample(map[string]any{"universe": "U2", "root": root.FEN, "moves": w.PathStrings()})
			}
			return !r.Expired()
		}
		w.Walk(&root.Pos, eng.Load(&root.Pos), depth)
	})
	r.Set("u2_nodes", n2.Load())
	r.Set("u2_depth", depth)

	r.States.Store(positions.Load())
	r.Transitions.Store(positions.Load())
	r.Validated.Store(positions.Load())
	r.Evals.Store(positions.Load())
	r.Nontrivial.Store(inCheck.Load() + stalemates.Load())
	r.Set("distinct_outcomes", map[string]int64{"in_check": inCheck.Load(), "checkmates": mates.Load(), "stalemates": stalemates.Load(), "positions_with_ep_target": epPositions.Load()})
	r.Set("rule", "every valid position of the listed material classes with engine-normalised en-passant state (target kept only if a legal capture exists), constrained 5-man classes (thorough), and every node of the trees below the root corpus; IsCheckmate is called only in check, IsStalemate only out of check; oracle: answer == (reference has no legal move); non-trivial = positions in check + stalemates")
}
