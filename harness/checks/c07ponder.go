package checks

import (
	"encoding/json"
	"fmt"
	"os"
	"os/exec"
	"path/filepath"
	"strings"

	"github.com/paulsonkoly/chess-3/search"

	"verif/ev"
	"verif/vsched"
)

// C07ponder — sub-run in the instrumented binary: the ponderhit is delivered at EVERY poll of its channel
// (fault plans on the real search), the stop channel closes after 30 000 polls for the plans whose hit
// is never taken; every result is judged by the C06 and C07 oracles (legal move, legal variations,
// depths strictly increasing, node counts never decreasing, returned move = head of the last variation).

type c07PonderCase struct {
	FEN      string `json:"fen"`
	Depth    int    `json:"depth"`
	PonderAt int    `json:"ponderhit_at_poll"`
	Nodes    int    `json:"nodes"`
}

func init() {
	register(&Check{ID: "C07ponder", Level: "model_checking", Run: runC07Ponder})
}

func c07PonderOne(s *search.Search, c c07PonderCase) (cls, msg string, delivered bool) {
	h, err := newHistory(c.FEN, nil)
	if err != nil {
		return "", "", false
	}
	s.Clear()
	res, plan := soloSearchN(s, h.B, c.Depth, c.Nodes, 30000, c.PonderAt, true)
	delivered = plan.PonderPolls > c.PonderAt
	req := searchReq{FEN: c.FEN, Depth: c.Depth, Nodes: -1}
	if cls, msg := judgeMove(h, req, &res); cls != "" {
		return "ponderhit/" + cls, fmt.Sprintf("%s depth %d ponderhit at poll %d: %s", c.FEN, c.Depth, c.PonderAt, msg), delivered
	}
	if cls, msg := judgePV(h, &res); cls != "" {
		return "ponderhit/pv/" + cls, fmt.Sprintf("%s depth %d ponderhit at poll %d: %s\n%s", c.FEN, c.Depth, c.PonderAt, msg, firstLines(res.Out, 12)), delivered
	}
	return "", "", delivered
}

func runC07Ponder(r *ev.Run) {
	if !Instrumented {
		fmt.Println(`{"error":"not instrumented"}`)
		os.Exit(2)
	}
	type fl struct {
		Class string        `json:"class"`
		Case  c07PonderCase `json:"case"`
		Msg   string        `json:"msg"`
	}
	var fails []fl
	runs, hits := 0, 0
	s := search.New(32000)
	for _, fen := range soloRoots {
		for _, d := range ev.Pick(r, []int{2, 4}, []int{1, 2, 3, 4, 5}) {
			for _, nodes := range []int{-1, 400} {
				for i := 0; i <= ev.Pick(r, 8, 14) && len(fails) < 3; i++ {
					c := c07PonderCase{fen, d, i, nodes}
					var cls, msg string
					var delivered bool
					if p, st := ev.Catch(func() { cls, msg, delivered = c07PonderOne(s, c) }); p != nil {
						vsched.Solo = nil
						cls, msg = "ponderhit/engine-panic", fmt.Sprintf("%s depth %d ponderhit at poll %d: the search panics: %v\n%s", fen, d, i, p, firstLines(st, 10))
						s = search.New(32000)
					}
					runs++
					if delivered {
						hits++
					}
					if cls != "" {
						fails = append(fails, fl{cls, c, msg})
					}
					if !delivered {
						break
					}
				}
			}
		}
	}
	out, _ := json.Marshal(map[string]any{"runs": runs, "hits": hits, "failures": fails})
	fmt.Println(string(out))
	os.Exit(0)
}

// c07PonderSweep runs the sub-run and folds its findings into r.
func c07PonderSweep(r *ev.Run) (int64, int64) {
	bin := filepath.Join(ev.Root, ".build", "verifcheck-instr")
	if _, err := os.Stat(bin); err != nil {
		r.Assume("ponderhit sweep not executed: instrumented binary missing (run through bin/check)")
		return 0, 0
	}
	out, err := exec.Command(bin, "C07ponder", r.Tier).Output()
	if err != nil {
		fmt.Fprintf(os.Stderr, "instrument error: ponderhit sweep failed: %v\n", err)
		os.Exit(2)
	}
	var res struct {
		Runs, Hits int64
		Failures   []struct {
			Class string        `json:"class"`
			Case  c07PonderCase `json:"case"`
			Msg   string        `json:"msg"`
		} `json:"failures"`
	}
	lines := strings.Split(strings.TrimSpace(string(out)), "\n")
	if json.Unmarshal([]byte(lines[len(lines)-1]), &res) != nil {
		fmt.Fprintln(os.Stderr, "instrument error: ponderhit sweep output not understood")
		os.Exit(2)
	}
	for _, f := range res.Failures {
		r.Fail(f.Class, f.Case, "%s", f.Msg)
	}
	return res.Runs, res.Hits
}
