package checks

import (
	"bytes"
	"encoding/json"
	"fmt"
	"os"
	"os/exec"
	"path/filepath"
	"strings"
	"sync"

	"github.com/paulsonkoly/chess-3/board"
	. "github.com/paulsonkoly/chess-3/chess"
	"github.com/paulsonkoly/chess-3/search"

	"verif/ev"
	"verif/vsched"
)

// C08 (schedules, in-family part): two engine instances searching different roots as two controlled
// threads, every stop poll of the instrumented search a scheduling point; every interleaving within the
// preemption bound must give each instance exactly the result, the reported lines and the state left
// behind of its solo run. No state-key pruning: hidden shared state is precisely what is looked for.

func init() {
	register(&Check{ID: "C08sched", Level: "model_checking", Run: runC08Sched})
}

type c08Pair struct {
	A, B   string
	DA, DB int
}

var c08Pairs = []c08Pair{
	{"8/8/8/4k3/8/8/4P3/4K3 w - - 0 1", "4k3/8/8/8/8/8/8/4K2R w K - 0 1", 3, 2},
	{"r3k2r/8/8/8/8/3r4/8/R3K2R w KQkq - 0 1", "8/P7/8/8/8/8/7p/K1k5 w - - 0 1", 2, 3},
	{"rnbqkbnr/pppppppp/8/8/8/8/PPPPPPPP/RNBQKBNR w KQkq - 0 1", "7k/5Q2/5K2/8/8/8/8/8 b - - 0 1", 2, 3},
}

// c08NoCounters: search without WithCounters (as the UCI driver and datagen do) with a hard node budget.
var c08NoCounters bool

func c08One(s *search.Search, fen string, depth int, stop chan struct{}) c08Obs {
	b, _ := board.FromFEN(fen)
	var out bytes.Buffer
	var cnt search.Counters
	opts := []search.Option{search.WithOutput(&out), search.WithDepth(Depth(depth)), search.WithStop(stop)}
	if c08NoCounters {
		opts = append(opts, search.WithNodes(90))
	} else {
		opts = append(opts, search.WithCounters(&cnt))
	}
	sc, mv, pm := s.Go(b, opts...)
	res := searchRes{Score: sc, Move: mv, Ponder: pm, Nodes: cnt.Nodes, Out: out.String()}
	return c08Observe(s, &res)
}

func runC08Sched(r *ev.Run) {
	if !Instrumented {
		fmt.Println(`{"error":"not instrumented"}`)
		os.Exit(2)
	}
	bound := ev.Pick(r, 1, 2)
	type result struct {
		Pair    c08Pair `json:"pair"`
		Execs   int     `json:"execs"`
		Points  int     `json:"points"`
		Capped  bool    `json:"capped"`
		Failure string  `json:"failure,omitempty"`
		Sched   []int   `json:"schedule,omitempty"`
	}
	enc := json.NewEncoder(os.Stdout)
	for pi, pr := range c08Pairs {
		c08NoCounters = pi%2 == 1
		// solo baselines (under the scheduler too, single thread, so that the polls take the same path)
		var wantA, wantB c08Obs
		vsched.New(nil, 1<<30).Run(func() { wantA = c08One(search.New(32000), pr.A, pr.DA, make(chan struct{})) })
		vsched.New(nil, 1<<30).Run(func() { wantB = c08One(search.New(32000), pr.B, pr.DB, make(chan struct{})) })
		var gotA, gotB c08Obs
		ex := &vsched.Explorer{Bound: bound, Prune: false, MaxExecs: ev.Pick(r, 4000, 300000), Stop: r.Expired}
		ex.Exec = func(choices []int, visit func(uint64, int) bool) vsched.Outcome {
			s := vsched.New(choices, 1<<30)
			return s.Run(func() {
				var wg sync.WaitGroup
				vsched.WGGo(&wg, func() { gotA = c08One(search.New(32000), pr.A, pr.DA, make(chan struct{})) })
				vsched.WGGo(&wg, func() { gotB = c08One(search.New(32000), pr.B, pr.DB, make(chan struct{})) })
				vsched.WGWait(&wg)
			})
		}
		ex.Check = func(choices []int, out vsched.Outcome) string {
			if out.Panic != "" {
				return "panic: " + firstLines(out.Panic, 8)
			}
			if out.Deadlock || out.Spin != "" {
				return "deadlock/spin: " + out.Spin
			}
			if d := wantA.diff(gotA, true); d != "" {
				return fmt.Sprintf("instance searching %s interleaved with another instance differs from its solo run: %s", pr.A, d)
			}
			if d := wantB.diff(gotB, true); d != "" {
				return fmt.Sprintf("instance searching %s interleaved with another instance differs from its solo run: %s", pr.B, d)
			}
			return ""
		}
		ex.Run()
		enc.Encode(result{Pair: pr, Execs: ex.Execs, Points: ex.Points, Capped: ex.Capped, Failure: ex.Failure, Sched: ex.FailedAt})
	}
	os.Exit(0)
}

// c08SchedPass runs the sub-run in the instrumented binary and folds its findings into r.
func c08SchedPass(r *ev.Run) (execs int64, info string) {
	bin := filepath.Join(ev.Root, ".build", "verifcheck-instr")
	if _, err := os.Stat(bin); err != nil {
		return 0, "instrumented binary not built (run through bin/check)"
	}
	cmd := exec.Command(bin, "C08sched", r.Tier)
	cmd.Env = append(os.Environ(), "GOMAXPROCS=2")
	out, err := cmd.Output()
	if err != nil {
		fmt.Fprintf(os.Stderr, "instrument error: C08 interleaving sub-run failed: %v\n", err)
		os.Exit(2)
	}
	capped := 0
	dec := json.NewDecoder(strings.NewReader(string(out)))
	for dec.More() {
		var res struct {
			Pair    c08Pair `json:"pair"`
			Execs   int64   `json:"execs"`
			Capped  bool    `json:"capped"`
			Failure string  `json:"failure"`
			Sched   []int   `json:"schedule"`
		}
		if dec.Decode(&res) != nil {
			break
		}
		execs += res.Execs
		if res.Capped {
			capped++
		}
		if res.Failure != "" {
			r.Fail("interleaved-differs", c08Case{Kind: "interleaved", Requests: []searchReq{{FEN: res.Pair.A, Depth: res.Pair.DA}, {FEN: res.Pair.B, Depth: res.Pair.DB}}}, "%s (schedule %v)", res.Failure, res.Sched)
		}
	}
	return execs, fmt.Sprintf("%d pairs of instances, every interleaving at poll granularity within %d preemption(s): %d executions, %d explorations capped", len(c08Pairs), ev.Pick(r, 1, 2), execs, capped)
}
