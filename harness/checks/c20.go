package checks

import (
	"bytes"
	"encoding/json"
	"fmt"
	"io"
	"os"
	"os/exec"
	"path/filepath"
	"sort"
	"strconv"
	"strings"
	"sync/atomic"

	"github.com/paulsonkoly/chess-3/tools/tuner/epd"
	"github.com/paulsonkoly/chess-3/tools/tuner/tuning"

	"verif/ev"
)

// C20 — each training position is processed exactly once per tuning epoch.

type c20Case struct {
	Kind   string `json:"kind"` // feistel, shuffle, batches, chunks, file
	N      int    `json:"n,omitempty"`
	Seed   uint64 `json:"seed,omitempty"`
	Bits   int    `json:"bits,omitempty"`
	Layout string `json:"layout,omitempty"` // file cases: name of the line-length/blank-line layout
	Start  int    `json:"start,omitempty"`
	End    int    `json:"end,omitempty"`
	Epoch  int    `json:"epoch,omitempty"`
}

var c20Seeds = []uint64{0, 1, 2, 3, 4, 5, 6, 7, 8, 9, 10, 11, 12, 13, 14, 15,
	0xffffffffffffffff, 0x8000000000000000, 0x9e3779b97f4a7c15, 0x0123456789abcdef, 0xdeadbeefdeadbeef, 1 << 32, 1<<63 - 1, 0x5555555555555555}

func c20Feistel(bits int, seed uint64, seen []uint32, stamp uint32) string {
	n := uint64(1) << bits
	for x := uint64(0); x < n; x++ {
		y := epd.VerifFeistel(x, seed, bits)
		if y >= n {
			return fmt.Sprintf("feistel(%d, seed %#x, %d bits) = %d is outside [0, 2^%d)", x, seed, bits, y, bits)
		}
		if seen[y] == stamp {
			return fmt.Sprintf("feistel(., seed %#x, %d bits) maps two inputs to %d (second input %d)", seed, bits, y, x)
		}
		seen[y] = stamp
	}
	return ""
}

func c20Shuffle(n int, seed uint64, seen []uint32, stamp uint32) string {
	for x := 0; x < n; x++ {
		y := epd.VerifShuffleIndex(uint64(x), uint64(n), seed)
		if y >= uint64(n) {
			return fmt.Sprintf("shuffleIndex(%d, n=%d, seed %#x) = %d is outside [0, n)", x, n, seed, y)
		}
		if seen[y] == stamp {
			return fmt.Sprintf("shuffleIndex(., n=%d, seed %#x) maps two indices to %d (second %d): not a permutation", n, seed, y, x)
		}
		seen[y] = stamp
	}
	return ""
}

func c20Batches(n int) string {
	next := 0
	for b := range tuning.Batches(n) {
		if b.Start != next || b.End <= b.Start || b.End > n {
			return fmt.Sprintf("Batches(%d) yields [%d,%d) after covering [0,%d)", n, b.Start, b.End, next)
		}
		next = b.End
	}
	if next != n {
		return fmt.Sprintf("Batches(%d) covers [0,%d)", n, next)
	}
	return ""
}

func c20Chunks(start, end int) string {
	next := start
	for c := range tuning.Chunks(tuning.Range{Start: start, End: end}) {
		if c.Start != next || c.End <= c.Start || c.End > end {
			return fmt.Sprintf("Chunks([%d,%d)) yields [%d,%d) after covering up to %d", start, end, c.Start, c.End, next)
		}
		next = c.End
	}
	if next != end {
		return fmt.Sprintf("Chunks([%d,%d)) covers up to %d", start, end, next)
	}
	return ""
}

// --- the I/O path -------------------------------------------------------

// c20Layouts describe file contents as a function of the line index.
type c20Layout struct {
	name  string
	line  func(i int) string // non-blank content of logical line i (no '\n')
	blank func(i int) int    // number of blank lines inserted BEFORE logical line i
	tail  int                // blank lines at the end of the file
}

func c20Line(i, length int) string {
	s := fmt.Sprintf("%d:", i)
	for len(s) < length {
		s += string(rune('a' + (i+len(s))%26))
	}
	return s[:max(length, 1)]
}

var c20Layouts = []c20Layout{
	{"short", func(i int) string { return c20Line(i, 8) }, func(int) int { return 0 }, 0},
	{"variable", func(i int) string { return c20Line(i, 1+(i*37)%300) }, func(int) int { return 0 }, 0},
	{"long", func(i int) string { return c20Line(i, 3000+(i*991)%1000) }, func(int) int { return 0 }, 0},
	{"blank-middle", func(i int) string { return c20Line(i, 5+i%7) }, func(i int) int {
		if i%3 == 1 {
			return 1 + i%2
		}
		return 0
	}, 0},
	{"blank-end", func(i int) string { return c20Line(i, 9) }, func(int) int { return 0 }, 2},
	// arbitrary bytes inside non-blank lines (byte-for-byte delivery): carriage returns at the end (files written
	// with CRLF line ends) and inside, tabs, trailing spaces, NUL and high bytes
	{"bytes", func(i int) string {
		base := c20Line(i, 4+i%9)
		switch i % 6 {
		case 0:
			return base + "\r"
		case 1:
			return "\t" + base + " "
		case 2:
			return base + "\x00\xff" + base
		case 3:
			return base + "\r\r"
		case 4:
			return "\r" + base
		}
		return base
	}, func(i int) int { return i % 2 }, 1},
	{"blank-first", func(i int) string { return c20Line(i, 6) }, func(i int) int {
		if i == 0 {
			return 1
		}
		return 0
	}, 1},
}

func c20LayoutByName(n string) *c20Layout {
	for i := range c20Layouts {
		if c20Layouts[i].name == n {
			return &c20Layouts[i]
		}
	}
	return nil
}

func c20Write(dir string, l *c20Layout, n int) (string, []string, error) {
	var buf bytes.Buffer
	var lines []string
	for i := 0; i < n; i++ {
		for k := l.blank(i); k > 0; k-- {
			buf.WriteByte('\n')
		}
		s := l.line(i)
		lines = append(lines, s)
		buf.WriteString(s)
		buf.WriteByte('\n')
	}
	for k := 0; k < l.tail; k++ {
		buf.WriteByte('\n')
	}
	fn := filepath.Join(dir, fmt.Sprintf("%s-%d.epd", l.name, n))
	return fn, lines, os.WriteFile(fn, buf.Bytes(), 0o644)
}

// c20ReadRange reads [start,end) of epoch through the shuffled view.
func c20ReadRange(ch *epd.Chunker, epoch, start, end int) ([]string, error) {
	c, err := ch.Open(epoch, start, end)
	if err != nil {
		return nil, fmt.Errorf("Open(%d,%d,%d): %v", epoch, start, end, err)
	}
	defer c.Close()
	pass := func() ([]string, error) {
		var out []string
		for {
			line, err := c.Read()
			if err == io.EOF {
				return out, nil
			}
			if err != nil {
				return out, err
			}
			out = append(out, string(line))
		}
	}
	out, err := pass()
	if err != nil {
		return out, err
	}
	// the window can be rewound and read again (the documented use of a Chunk): the second pass delivers the same lines
	if err := c.Rewind(); err != nil {
		return out, fmt.Errorf("Rewind: %v", err)
	}
	again, err := pass()
	if err != nil {
		return out, fmt.Errorf("second pass after Rewind: %v", err)
	}
	if len(again) != len(out) {
		return out, fmt.Errorf("second pass after Rewind delivers %d lines, the first %d", len(again), len(out))
	}
	for i := range out {
		if out[i] != again[i] {
			return out, fmt.Errorf("second pass after Rewind delivers %q where the first delivered %q", trunc(again[i]), trunc(out[i]))
		}
	}
	return out, nil
}

func c20SameMultiset(got, want []string) string {
	g := append([]string(nil), got...)
	w := append([]string(nil), want...)
	sort.Strings(g)
	sort.Strings(w)
	if len(g) != len(w) {
		return fmt.Sprintf("%d lines delivered, %d non-blank lines in the file", len(g), len(w))
	}
	for i := range g {
		if g[i] != w[i] {
			return fmt.Sprintf("delivered %q where the file has %q", trunc(g[i]), trunc(w[i]))
		}
	}
	return ""
}

func trunc(s string) string {
	if len(s) > 40 {
		return s[:40] + "..."
	}
	return s
}

// c20Epoch delivers a whole epoch through Batches/Chunks and compares with the file.
func c20Epoch(ch *epd.Chunker, lines []string, epoch int) (msg string) {
	if p, st := ev.Catch(func() {
		if ch.LineCount() != len(lines) {
			msg = fmt.Sprintf("LineCount()=%d, the file has %d non-blank lines", ch.LineCount(), len(lines))
			return
		}
		var all []string
		for b := range tuning.Batches(ch.LineCount()) {
			for c := range tuning.Chunks(b) {
				got, err := c20ReadRange(ch, epoch, c.Start, c.End)
				if err != nil {
					msg = err.Error()
					return
				}
				all = append(all, got...)
			}
		}
		msg = c20SameMultiset(all, lines)
	}); p != nil {
		return fmt.Sprintf("panic: %v\n%s", p, firstLines(st, 8))
	}
	return msg
}

func c20FileCase(dir string, c c20Case) string {
	l := c20LayoutByName(c.Layout)
	if l == nil {
		return "unknown layout"
	}
	fn, lines, err := c20Write(dir, l, c.N)
	if err != nil {
		return err.Error()
	}
	defer os.Remove(fn)
	ch, err := epd.NewChunker(fn)
	if err != nil {
		return "NewChunker: " + err.Error()
	}
	if c.Kind == "file-range" {
		msg := ""
		if p, _ := ev.Catch(func() {
			got, err := c20ReadRange(ch, c.Epoch, c.Start, c.End)
			if err != nil {
				msg = err.Error()
				return
			}
			if len(got) != c.End-c.Start {
				msg = fmt.Sprintf("range [%d,%d) delivered %d lines", c.Start, c.End, len(got))
				return
			}
			// every delivered line must be a line of the file, none twice
			seen := map[string]bool{}
			in := map[string]bool{}
			for _, s := range lines {
				in[s] = true
			}
			for _, s := range got {
				if !in[s] || seen[s] {
					msg = fmt.Sprintf("range [%d,%d) delivered %q (not a line of the file, or twice)", c.Start, c.End, trunc(s))
					return
				}
				seen[s] = true
			}
		}); p != nil {
			return fmt.Sprintf("panic: %v", p)
		}
		return msg
	}
	return c20Epoch(ch, lines, c.Epoch)
}

func c20Replay(class string, raw json.RawMessage) (bool, string) {
	var c c20Case
	if err := json.Unmarshal(raw, &c); err != nil {
		return false, err.Error()
	}
	var msg string
	switch c.Kind {
	case "feistel":
		msg = c20Feistel(c.Bits, c.Seed, make([]uint32, 1<<c.Bits), 1)
	case "shuffle":
		msg = c20Shuffle(c.N, c.Seed, make([]uint32, c.N), 1)
	case "batches":
		msg = c20Batches(c.N)
	case "chunks":
		msg = c20Chunks(c.Start, c.End)
	case "file-interleaved":
		dir, _ := os.MkdirTemp("", "c20replay")
		defer os.RemoveAll(dir)
		l := c20LayoutByName(c.Layout)
		if l == nil {
			return false, "unknown layout"
		}
		fn, lines, err := c20Write(dir, l, c.N)
		if err != nil {
			return false, err.Error()
		}
		ch, err := epd.NewChunker(fn)
		if err != nil {
			return true, err.Error()
		}
		msg = c20Interleaved(ch, lines, c.N)
	default:
		dir, _ := os.MkdirTemp("", "c20replay")
		defer os.RemoveAll(dir)
		msg = c20FileCase(dir, c)
	}
	if msg != "" {
		return true, msg
	}
	return false, "exactly once"
}

func init() {
	register(&Check{ID: "C20", Level: "model_checking", Run: runC20, Replay: c20Replay})
	register(&Check{ID: "C20refill", Level: "model_checking", Run: runC20Refill})
}

// c20FileFamily runs the I/O family; used by the main check and, with small
// read buffers compiled in through an overlay, by the refill sub-runs.
func c20FileFamily(maxN, rangesUpTo int, epochs []int, bigSizes []int, maxLine int, fail func(class string, c c20Case, msg string), expired func() bool) (files, ranges int64) {
	dir, err := os.MkdirTemp("", "verif-c20-")
	if err != nil {
		fail("io", c20Case{}, err.Error())
		return
	}
	defer os.RemoveAll(dir)
	var nf, nr atomic.Int64
	type job struct {
		l *c20Layout
		n int
	}
	var jobs []job
	for li := range c20Layouts {
		for n := 1; n <= maxN; n++ {
			if c20Layouts[li].name == "long" && n > 60 {
				continue
			}
			jobs = append(jobs, job{&c20Layouts[li], n})
		}
		for _, n := range bigSizes {
			if c20Layouts[li].name == "short" || c20Layouts[li].name == "blank-middle" {
				jobs = append(jobs, job{&c20Layouts[li], n})
			}
		}
	}
	ev.Parallel(len(jobs), func(wk, item int) {
		if expired() {
			return
		}
		j := jobs[item]
		if maxLine > 0 {
			// the documented domain: a line (with its '\n') fits the read buffer
			for i := 0; i < j.n; i++ {
				if len(j.l.line(i))+1 > maxLine {
					return
				}
			}
		}
		fn, lines, err := c20Write(dir, j.l, j.n)
		if err != nil {
			fail("io", c20Case{}, err.Error())
			return
		}
		defer os.Remove(fn)
		ch, err := epd.NewChunker(fn)
		if err != nil {
			fail("file/newchunker", c20Case{Kind: "file", Layout: j.l.name, N: j.n}, "NewChunker: "+err.Error())
			return
		}
		for _, e := range epochs {
			nf.Add(1)
			if msg := c20Epoch(ch, lines, e); msg != "" {
				fail("file/"+j.l.name, c20Case{Kind: "file", Layout: j.l.name, N: j.n, Epoch: e}, fmt.Sprintf("layout %s, %d lines, epoch %d: %s", j.l.name, j.n, e, msg))
				return
			}
		}
		// two windows of the same chunker open at the same time with interleaved reads (the tuner's workers share one chunker)
		if j.n >= 4 && ch.LineCount() == j.n {
			if msg := c20Interleaved(ch, lines, j.n); msg != "" {
				fail("file-interleaved/"+j.l.name, c20Case{Kind: "file-interleaved", Layout: j.l.name, N: j.n, Epoch: 2}, fmt.Sprintf("layout %s, %d lines, two chunks open at once: %s", j.l.name, j.n, msg))
				return
			}
		}
		if j.n <= rangesUpTo && ch.LineCount() == j.n {
			for s := 0; s < j.n; s++ {
				for e := s + 1; e <= j.n; e++ {
					nr.Add(1)
					c := c20Case{Kind: "file-range", Layout: j.l.name, N: j.n, Start: s, End: e, Epoch: 1}
					if msg := c20FileCase(dir+"", c); msg != "" {
						fail("file-range/"+j.l.name, c, fmt.Sprintf("layout %s, %d lines, range [%d,%d): %s", j.l.name, j.n, s, e, msg))
						return
					}
				}
			}
		}
	})
	return nf.Load(), nr.Load()
}

// runC20Refill is executed by binaries built with a small backingBytes
// (overlay); it prints a JSON summary instead of writing evidence.
func runC20Refill(r *ev.Run) {
	type fl struct {
		Class string  `json:"class"`
		Case  c20Case `json:"case"`
		Msg   string  `json:"msg"`
	}
	var fails []fl
	var mu atomic.Int64
	bb, _ := strconv.Atoi(os.Getenv("VERIF_BB"))
	files, ranges := c20FileFamily(ev.Pick(r, 40, 120), 10, []int{0, 3}, nil, bb, func(class string, c c20Case, msg string) {
		if mu.Add(1) <= 3 {
			fails = append(fails, fl{class, c, msg})
		}
	}, r.Expired)
	out, _ := json.Marshal(map[string]any{"files": files, "ranges": ranges, "failures": fails})
	fmt.Println(string(out))
	os.Exit(0)
}

func runC20(r *ev.Run) {
	var perms, points atomic.Int64
	// Feistel bijection for every width
	maxBits := ev.Pick(r, 18, 22)
	ev.Parallel((maxBits+1)*len(c20Seeds), func(wk, item int) {
		bits, seed := item/len(c20Seeds), c20Seeds[item%len(c20Seeds)]
		if bits == 0 {
			return
		}
		perms.Add(1)
		points.Add(1 << bits)
		if msg := c20Feistel(bits, seed, make([]uint32, 1<<bits), 1); msg != "" {
			r.Fail("feistel", c20Case{Kind: "feistel", Bits: bits, Seed: seed}, "%s", msg)
		}
	})
	// everything below walks cycles of feistel until it lands inside [0,n): with a feistel that is not a bijection
	// that walk need not end, so the verdict on feistel is final and nothing downstream is attempted
	var parts atomic.Int64
	var files, ranges, refill int64
	if r.Failed() {
		r.Assume("feistel is not a bijection: the checks that rely on the termination of the cycle walk (shuffleIndex, files) were not run")
		r.Cut()
	} else {
		files, ranges, refill = c20Downstream(r, &perms, &points, &parts)
	}
	c20Summary(r, &perms, &points, &parts, files, ranges, refill)
}

func c20Downstream(r *ev.Run, perms, points, parts *atomic.Int64) (files, ranges, refill int64) {
	// shuffleIndex is a permutation of [0,n) for EVERY n up to the bound
	maxN := ev.Pick(r, 3000, 32768)
	ev.Parallel(maxN, func(wk, item int) {
		n := item + 1
		seen := make([]uint32, n)
		for si, seed := range c20Seeds {
			perms.Add(1)
			points.Add(int64(n))
			if msg := c20Shuffle(n, seed, seen, uint32(si+1)); msg != "" {
				r.Fail("shuffle", c20Case{Kind: "shuffle", N: n, Seed: seed}, "%s", msg)
				return
			}
		}
	})
	// sizes around powers of two and four beyond the dense range
	var big []int
	for k := 13; k <= ev.Pick(r, 20, 23); k++ {
		for d := -1; d <= 2; d++ {
			big = append(big, 1<<k+d)
		}
	}
	big = append(big, 100000, 100001, 99999, 250000, 6249, 6250, 6251)
	ev.Parallel(len(big), func(wk, item int) {
		n := big[item]
		seen := make([]uint32, n)
		for si, seed := range c20Seeds[:6] {
			perms.Add(1)
			points.Add(int64(n))
			if msg := c20Shuffle(n, seed, seen, uint32(si+1)); msg != "" {
				r.Fail("shuffle", c20Case{Kind: "shuffle", N: n, Seed: seed}, "%s", msg)
				return
			}
		}
	})
	// Batches / Chunks partitions
	maxB := ev.Pick(r, 250000, 400000)
	ev.Parallel(maxB/1000+1, func(wk, item int) {
		for n := item * 1000; n < (item+1)*1000 && n <= maxB; n++ {
			parts.Add(1)
			if msg := c20Batches(n); msg != "" {
				r.Fail("batches", c20Case{Kind: "batches", N: n}, "%s", msg)
				return
			}
		}
	})
	ev.Parallel(1000, func(wk, item int) {
		for l := item * 101; l < (item+1)*101; l++ {
			for _, off := range []int{0, 1, 99999, 100000, 6250, 123457} {
				parts.Add(1)
				if msg := c20Chunks(off, off+l); msg != "" {
					r.Fail("chunks", c20Case{Kind: "chunks", Start: off, End: off + l}, "%s", msg)
					return
				}
			}
		}
	})
	// the I/O path with the real 32 MiB read buffer
	fail := func(class string, c c20Case, msg string) { r.Fail(class, c, "%s", msg) }
	files, ranges = c20FileFamily(ev.Pick(r, 100, 300), ev.Pick(r, 10, 24), []int{0, 1, 7}, []int{6249, 6250, 6251, 100001}, 0, fail, r.Expired)
	// a file larger than the read buffer: lines straddle the refill
	c20BigFile(r)
	// the refill logic with small read buffers (overlay builds of the same harness)
	refill = c20RefillRuns(r)
	return
}

func c20Summary(r *ev.Run, perms, points, parts *atomic.Int64, files, ranges, refill int64) {

	r.Sample(map[string]any{"kind": "shuffle", "n": 257, "seeds": len(c20Seeds)})
	r.Sample(map[string]any{"kind": "file", "layout": "blank-middle", "n": 37, "epochs": []int{0, 1, 7}})
	r.States.Store(perms.Load() + files + ranges + parts.Load())
	r.Transitions.Store(points.Load())
	r.Validated.Store(points.Load())
	r.Evals.Store(perms.Load() + files + ranges + parts.Load() + refill)
	r.Nontrivial.Store(perms.Load() + files + ranges)
	r.Set("permutations_checked", perms.Load())
	r.Set("permutation_points", points.Load())
	r.Set("file_epochs", files)
	r.Set("file_subranges", ranges)
	r.Set("refill_subruns_cases", refill)
	r.Set("rule", "feistel is a bijection of [0,2^b) for every b up to the bound x 24 seeds; shuffleIndex is a permutation of [0,n) for EVERY n up to the bound x 24 seeds plus sizes around powers of two; Batches(n) partitions [0,n) for every n; Chunks partitions every range length at several offsets; files for every line count up to the bound in 7 layouts (short, variable, near-4KiB lines, blank lines in the middle / at the end / first, lines with carriage returns, tabs, NUL and high bytes) read as whole epochs through Batches x Chunks x Open x Read and compared as multisets with the non-blank lines, every sub-range [s,e) for small n; two windows of one chunker open at once with interleaved reads; every window rewound and read a second time (same lines); one 40 MiB file with the real 32 MiB buffer; the same family with the read buffer overlaid to 64/257/4096 bytes (every alignment of a line against a refill)")
	r.Assume("epochs beyond the enumerated seeds rest on the epoch only seeding the round keys")
}

func c20BigFile(r *ev.Run) {
	dir, err := os.MkdirTemp("", "verif-c20big-")
	if err != nil {
		return
	}
	defer os.RemoveAll(dir)
	l := c20Layout{"big", func(i int) string { return c20Line(i, 1500+(i*7919)%2500) }, func(int) int { return 0 }, 0}
	n := 15200 // about 40 MiB
	fn, lines, err := c20Write(dir, &l, n)
	if err != nil {
		r.Fail("io", c20Case{}, "%v", err)
		return
	}
	ch, err := epd.NewChunker(fn)
	if err != nil {
		r.Fail("file/big", c20Case{Kind: "file", Layout: "big", N: n}, "NewChunker: %v", err)
		return
	}
	for _, e := range ev.Pick(r, []int{0}, []int{0, 1, 2}) {
		// whole range in one chunk (every line crosses the buffer logic) and the tuner's partition
		got, err := c20ReadRangeSafe(ch, e, 0, n)
		msg := ""
		if err != nil {
			msg = err.Error()
		} else {
			msg = c20SameMultiset(got, lines)
		}
		if msg == "" {
			msg = c20Epoch(ch, lines, e)
		}
		if msg != "" {
			r.Fail("file/big", c20Case{Kind: "file", Layout: "big", N: n, Epoch: e}, "40 MiB file, epoch %d: %s", e, msg)
			return
		}
	}
}

func c20ReadRangeSafe(ch *epd.Chunker, epoch, s, e int) (out []string, err error) {
	if p, _ := ev.Catch(func() { out, err = c20ReadRange(ch, epoch, s, e) }); p != nil {
		return nil, fmt.Errorf("panic: %v", p)
	}
	return
}

// c20RefillRuns executes the sub-binaries built by bin/check with a small backingBytes.
func c20RefillRuns(r *ev.Run) int64 {
	var total int64
	for _, bb := range []int{64, 257, 4096} {
		bin := filepath.Join(ev.Root, ".build", fmt.Sprintf("verifcheck-bb%d", bb))
		if _, err := os.Stat(bin); err != nil {
			r.Assume(fmt.Sprintf("refill sub-run with backingBytes=%d not executed: %s missing", bb, bin))
			r.Cut()
			continue
		}
		cmd := exec.Command(bin, "C20refill", r.Tier)
		cmd.Env = append(os.Environ(), fmt.Sprintf("VERIF_BB=%d", bb))
		out, err := cmd.Output()
		if err != nil {
			r.Fail("refill/crash", c20Case{Kind: "file", Layout: fmt.Sprintf("backingBytes=%d", bb)}, "sub-run with backingBytes=%d failed: %v: %s", bb, err, trunc(string(out)))
			continue
		}
		var res struct {
			Files    int64 `json:"files"`
			Ranges   int64 `json:"ranges"`
			Failures []struct {
				Class string  `json:"class"`
				Case  c20Case `json:"case"`
				Msg   string  `json:"msg"`
			} `json:"failures"`
		}
		lines := strings.Split(strings.TrimSpace(string(out)), "\n")
		if err := json.Unmarshal([]byte(lines[len(lines)-1]), &res); err != nil {
			r.Fail("refill/crash", c20Case{}, "sub-run output not understood: %v", err)
			continue
		}
		total += res.Files + res.Ranges
		for _, f := range res.Failures {
			c := f.Case
			c.Layout = fmt.Sprintf("%s (backingBytes=%d)", c.Layout, bb)
			r.Fail(fmt.Sprintf("refill%d/%s", bb, f.Class), c, "read buffer %d bytes: %s", bb, f.Msg)
		}
	}
	return total
}

// c20Interleaved opens [0,n/2) and [n/2,n) of epoch 2 at the same time and alternates reads.
func c20Interleaved(ch *epd.Chunker, lines []string, n int) (msg string) {
	if p, _ := ev.Catch(func() {
		a, err := ch.Open(2, 0, n/2)
		if err != nil {
			msg = err.Error()
			return
		}
		defer a.Close()
		b, err := ch.Open(2, n/2, n)
		if err != nil {
			msg = err.Error()
			return
		}
		defer b.Close()
		var got []string
		doneA, doneB := false, false
		for !doneA || !doneB {
			if !doneA {
				if l, err := a.Read(); err != nil {
					doneA = true
				} else {
					got = append(got, string(l))
				}
			}
			if !doneB {
				if l, err := b.Read(); err != nil {
					doneB = true
				} else {
					got = append(got, string(l))
				}
			}
		}
		msg = c20SameMultiset(got, lines)
	}); p != nil {
		return fmt.Sprintf("panic: %v", p)
	}
	return msg
}
