package checks

import (
	"bytes"
	"encoding/json"
	"fmt"
	"strings"
	"sync/atomic"

	"github.com/paulsonkoly/chess-3/board"
	. "github.com/paulsonkoly/chess-3/chess"
	"github.com/paulsonkoly/chess-3/move"
	"github.com/paulsonkoly/chess-3/uci"

	"verif/eng"
	"verif/ev"
	"verif/refchess"
)

// C10 — repetition count equals true recurrences of the position.

type c10Case struct {
	FEN   string   `json:"fen"`
	Moves []string `json:"moves"`
	Via   string   `json:"via"`
}

type c10Root struct {
	fen      string
	alphabet string // space separated from-to strings; legal moves outside it are not played
	depth    [2]int // quick, thorough
}

var c10Roots = []c10Root{
	{"rnbqkbnr/pppppppp/8/8/8/8/PPPPPPPP/RNBQKBNR w KQkq - 0 1", "g1f3 f3g1 b1c3 c3b1 g8f6 f6g8 b8c6 c6b8 h1g1 g1h1 h8g8 g8h8", [2]int{16, 24}},
	{"r3k2r/8/8/8/8/8/8/R3K2R w KQkq - 0 1", "a1b1 b1a1 h1g1 g1h1 a8b8 b8a8 h8g8 g8h8 e1e2 e2e1 e8e7 e7e8", [2]int{14, 21}},
	{"4k3/8/8/8/3p4/8/4P3/4K3 w - - 0 1", "e2e4 e2e3 e1d1 d1e1 e8d8 d8e8 d4e3", [2]int{16, 24}},
	{"4k3/8/8/8/3pP3/8/8/4K3 b - e3 0 1", "e1d1 d1e1 e8d8 d8e8 d4e3 d4d3", [2]int{16, 24}},
	{"4k3/8/8/8/4P3/8/8/4K1N1 b - e3 0 1", "e1d1 d1e1 e8d8 d8e8 g1f3 f3g1", [2]int{14, 21}},
	{"8/8/8/8/k2pP2R/8/8/4K3 b - e3 0 1", "a4a5 a5a4 e1d1 d1e1 h4h5 h5h4", [2]int{14, 21}},
	{"4k2r/8/8/8/8/8/8/4K2N b k - 0 1", "h8g8 g8h8 e8e7 e7e8 e1d1 d1e1 h1f2 f2h1 h8h1", [2]int{14, 21}},
	{"k7/8/8/8/8/8/8/K6N w - - 0 1", "a1b1 b1a1 a8b8 b8a8 a1a2 a2a1 a8a7 a7a8 h1f2 f2h1", [2]int{13, 20}},
	{"7k/5ppp/8/8/8/8/PPP5/K7 w - - 4 9", "a1b1 b1a1 h8g8 g8h8 a2a3 h7h6 a2a4 h7h5", [2]int{15, 22}},
	{"4k3/8/8/8/1p6/8/P7/4K3 w - - 0 1", "a2a4 a2a3 e1d1 d1e1 e8d8 d8e8 b4a3", [2]int{13, 22}},
	{"4k3/8/8/8/6p1/8/7P/4K3 w - - 0 1", "h2h4 h2h3 e1d1 d1e1 e8d8 d8e8 g4h3", [2]int{13, 22}},
	{"4k3/p7/8/1P6/8/8/8/4K3 b - - 0 1", "a7a5 a7a6 e1d1 d1e1 e8d8 d8e8 b5a6", [2]int{13, 22}},
	{"4k3/7p/8/6P1/8/8/8/4K3 b - - 0 1", "h7h5 h7h6 e1d1 d1e1 e8d8 d8e8 g5h6", [2]int{13, 22}},
	{"1n1k4/8/8/8/3p1p2/8/4P3/1N1R3K w - - 0 1", "e2e4 e2e3 b1c3 c3b1 b8c6 c6b8 f4e3 d4e3", [2]int{12, 16}},
	{"1n1k4/8/4p3/8/3P1P2/8/8/1N1r3K b - - 0 1", "e6e5 b1c3 c3b1 b8c6 c6b8 f4e5 d4e5", [2]int{12, 16}},
	{"k7/8/5n2/8/8/5N2/8/K7 w - - 0 1", "f3e5 e5g4 g4f6 f6e4 e4g5 g5f3 f3g1 g1f3 f6g8 g8f6", [2]int{13, 17}},
	{"r3k3/8/8/8/8/8/8/R3K3 w - - 0 1", "a1b1 b1b8 b8a8 a8b8 b8b1 b1a1 a8c8 c8c1 c1a1 a1c1 c1c8 c8a8", [2]int{11, 15}},
	{"k7/8/8/8/8/8/8/K7 w - - 0 1", "a1b1 b1a2 a2a1 a1a2 a2b1 b1a1 a8b8 b8a7 a7a8 a8a7 a7b8 b8a8", [2]int{12, 16}},
	{"4k2r/8/8/8/8/8/8/R3K3 w - - 0 1", "a1a3 a3a2 a2a1 a1a2 a2a3 a3a1 h8h6 h6h7 h7h8 h8h7 h7h6 h6h8", [2]int{12, 16}},
	// rook-pawn double pushes with an enemy pawn on the OTHER edge of the board, one rank off (the square a shifted
	// bitboard reaches when the file mask is forgotten): no capture exists, the pushed position recurs
	{"4k3/p7/8/8/7P/8/8/4K3 b - - 0 1", "a7a5 a7a6 e1d1 d1e1 e8d8 d8e8", [2]int{12, 18}},
	{"4k3/8/8/p7/8/8/7P/4K3 w - - 0 1", "h2h4 h2h3 e1d1 d1e1 e8d8 d8e8", [2]int{12, 18}},
	{"4k3/7p/P7/8/8/8/8/4K3 b - - 0 1", "h7h5 h7h6 e1d1 d1e1 e8d8 d8e8", [2]int{12, 18}},
	{"4k3/8/8/8/8/7p/P7/4K3 w - - 0 1", "a2a4 a2a3 e1d1 d1e1 e8d8 d8e8", [2]int{12, 18}},
	{"6k1/8/8/8/2pP4/8/8/R3K3 b Q d3 0 1", "g8h8 h8g8 a1b1 b1a1 e1e2 e2e1 c4d3", [2]int{14, 21}},
}

func c10Allowed(alpha string) map[string]bool {
	m := map[string]bool{}
	for _, s := range strings.Fields(alpha) {
		m[s] = true
	}
	return m
}

// c10Count is the number of positions in keys equal to the last one, capped at 3.
func c10Count(keys []refchess.Key) int {
	last := keys[len(keys)-1]
	n := 0
	for _, k := range keys {
		if k == last {
			n++
		}
	}
	return min(n, 3)
}

func c10Replay(class string, raw json.RawMessage) (bool, string) {
	var c c10Case
	if err := json.Unmarshal(raw, &c); err != nil {
		return false, err.Error()
	}
	p := refchess.MustFEN(c.FEN)
	keys := []refchess.Key{p.Key()}
	b := eng.Load(&p)
	for _, s := range c.Moves {
		var buf [256]refchess.Move
		found := false
		for _, m := range p.LegalMoves(buf[:0]) {
			if m.String() == s {
				b.MakeMove(move.Move(m.Enc()))
				p = p.Make(m)
				keys = append(keys, p.Key())
				found = true
				break
			}
		}
		if !found {
			return false, "move " + s + " not legal in the reference"
		}
	}
	got := int(b.Threefold())
	if c.Via == "uci" {
		got = c10ViaUCI(c.FEN, c.Moves)
	}
	if want := c10Count(keys); got != want {
		return true, fmt.Sprintf("%s %v: Threefold()=%d, true count %d", c.FEN, c.Moves, got, want)
	}
	return false, "repetition count correct"
}

func c10ViaUCI(fen string, moves []string) int {
	var out, errb bytes.Buffer
	script := "position fen " + fen
	if len(moves) > 0 {
		script += " moves " + strings.Join(moves, " ")
	}
	d := uci.NewDriver(uci.WithInput(strings.NewReader(script+"\n")), uci.WithOutput(&out), uci.WithError(&errb), uci.WithSearch(nullSearch{}))
	d.Run()
	return int(d.VerifBoard().Threefold())
}

func init() {
	register(&Check{ID: "C10", Level: "model_checking", Run: runC10, Replay: c10Replay})
}

func runC10(r *ev.Run) {
	var seqs, steps, twos, threes, uciRuns atomic.Int64
	// one job per (root, first move) so that all cores are used
	type job struct {
		root  c10Root
		first int
	}
	var jobs []job
	for _, root := range c10Roots {
		for f := 0; f < 8; f++ {
			jobs = append(jobs, job{root, f})
		}
	}
	// iterative deepening: the quick depth is always completed; the thorough tier then keeps adding two plies
	// to every root until the internal deadline, and reports the last offset that was completed
	extra, completedExtra := 0, 0
	for {
		startSteps := steps.Load()
		ev.Parallel(len(jobs), func(worker, item int) {
			j := jobs[item]
			allowed := c10Allowed(j.root.alphabet)
			rootPos := refchess.MustFEN(j.root.fen)
			rootRaw := rootPos.Ep >= 0 && !rootPos.EPCapturable()
			b := eng.Load(&rootPos)
			keys := []refchess.Key{rootPos.Key()}
			var path []string
			var rec func(p *refchess.Pos, depth int)
			rec = func(p *refchess.Pos, depth int) {
				steps.Add(1)
				want := c10Count(keys)
				got := int(b.Threefold())
				switch want {
				case 2:
					twos.Add(1)
				case 3:
					threes.Add(1)
				}
				if got != want {
					cls := "count"
					if rootRaw && keys[len(keys)-1] == keys[0] && got == want-1 {
						cls = "count/root-fen-ep-not-capturable"
					}
					r.Fail(cls, c10Case{FEN: j.root.fen, Moves: append([]string(nil), path...), Via: "api"},
						"%s %v: Threefold()=%d, true count %d", j.root.fen, path, got, want)
				}
				if depth == 0 || r.Expired() {
					seqs.Add(1)
					// the same history through `position fen .. moves ..` (every 16th leaf)
					if seqs.Load()%16 == 0 {
						uciRuns.Add(1)
						if g := c10ViaUCI(j.root.fen, path); g != want {
							cls := "uci/count"
							if rootRaw && keys[len(keys)-1] == keys[0] && g == want-1 {
								cls = "uci/count/root-fen-ep-not-capturable"
							}
							r.Fail(cls, c10Case{FEN: j.root.fen, Moves: append([]string(nil), path...), Via: "uci"},
								"position fen %s moves %v: Threefold()=%d, true count %d", j.root.fen, path, g, want)
						}
					}
					return
				}
				var buf [256]refchess.Move
				k := 0
				for _, m := range p.LegalMoves(buf[:0]) {
					if !allowed[m.String()] {
						continue
					}
					if len(path) == 0 {
						// top-level split
						if k%8 != j.first {
							k++
							continue
						}
						k++
					}
					child := p.Make(m)
					em := move.Move(m.Enc())
					rv := b.MakeMove(em)
					keys = append(keys, child.Key())
					path = append(path, m.String())
					rec(&child, depth-1)
					path = path[:len(path)-1]
					keys = keys[:len(keys)-1]
					b.UndoMove(em, rv)
				}
			}
			rec(&rootPos, j.root.depth[0]+extra)
			if j.first == 0 {
				r.Sample(map[string]any{"root": j.root.fen, "alphabet": j.root.alphabet, "depth": j.root.depth[0] + extra})
			}
		})
		if r.WasCut() {
			break
		}
		completedExtra = extra
		if !r.Thorough() || extra >= 10 || r.Remaining().Seconds() < 8*float64(steps.Load()-startSteps)/2.5e6 {
			break
		}
		extra += 2
	}
	r.Set("depth_beyond_quick_completed", completedExtra)

	// long histories: hundreds of plies of deterministic shuffling over the same alphabets (the position
	// recurs many times; the half-move clock runs far beyond 100)
	var longSteps atomic.Int64
	ev.Parallel(len(c10Roots), func(worker, item int) {
		root := c10Roots[item]
		allowed := c10Allowed(root.alphabet)
		for variant := 0; variant < 3; variant++ {
			p := refchess.MustFEN(root.fen)
			rootRaw := p.Ep >= 0 && !p.EPCapturable()
			b := eng.Load(&p)
			keys := []refchess.Key{p.Key()}
			var path []string
			x := uint32(item*7 + variant*13 + 1)
			for ply := 0; ply < ev.Pick(r, 300, 600); ply++ {
				var buf [256]refchess.Move
				var cand []refchess.Move
				for _, m := range p.LegalMoves(buf[:0]) {
					// reversible moves of the alphabet only: the line must stay long
					pc := p.Sq[m.From]
					if pc < 0 {
						pc = -pc
					}
					if allowed[m.String()] && p.Sq[m.To] == 0 && pc != refchess.Pawn {
						cand = append(cand, m)
					}
				}
				if len(cand) == 0 {
					break
				}
				x = x*1664525 + 1013904223
				m := cand[int(x>>16)%len(cand)]
				if variant == 0 {
					m = cand[ply%len(cand)] // strictly periodic
				}
				b.MakeMove(move.Move(m.Enc()))
				p = p.Make(m)
				keys = append(keys, p.Key())
				path = append(path, m.String())
				longSteps.Add(1)
				steps.Add(1)
				want := c10Count(keys)
				switch want {
				case 2:
					twos.Add(1)
				case 3:
					threes.Add(1)
				}
				if got := int(b.Threefold()); got != want {
					cls := "count/long-history"
					if rootRaw && keys[len(keys)-1] == keys[0] && got == want-1 {
						cls = "count/root-fen-ep-not-capturable"
					}
					r.Fail(cls, c10Case{FEN: root.fen, Moves: append([]string(nil), path...), Via: "api"}, "%s after %d plies: Threefold()=%d, true count %d", root.fen, len(path), got, want)
					break
				}
			}
		}
	})
	r.Set("long_history_steps", longSteps.Load())

	// several games set up the same way (board.StartPos, and FromFEN of one text) and advanced in interleaved order:
	// the history of one game must not leak into another
	c10Interleaved(r, &steps)

	r.States.Store(steps.Load())
	r.Transitions.Store(steps.Load())
	r.Validated.Store(steps.Load())
	r.Evals.Store(steps.Load() + uciRuns.Load())
	r.Nontrivial.Store(twos.Load() + threes.Load())
	r.Set("sequences", seqs.Load())
	r.Set("uci_histories", uciRuns.Load())
	r.Set("distinct_outcomes", map[string]int64{"count_2": twos.Load(), "count_3": threes.Load(), "count_1": steps.Load() - twos.Load() - threes.Load()})
	r.Set("rule", "all move sequences up to the stated length over small move alphabets from 20 shuffle roots (knight/king/rook oscillations, rooks losing castling rights on the way, double pushes creating transient en-passant rights, FEN roots with capturable and non-capturable targets, irreversible moves mid-history), by DFS over the real MakeMove/UndoMove; after every step Threefold() must equal min(3, occurrences of the reference key in the history); every 16th complete history also through `position fen .. moves ..` on a real driver; deterministic histories of 300-600 plies over the same alphabets; four games from the same constructor (StartPos / FromFEN) advanced round-robin; non-trivial = steps whose true count is 2 or 3")
}

// c10Interleaved advances k boards obtained from the same constructor round-robin with different shuffles
// and checks every board's repetition count after every ply.
func c10Interleaved(r *ev.Run, steps *atomic.Int64) {
	type game struct {
		b    *board.Board
		p    refchess.Pos
		keys []refchess.Key
		path []string
	}
	start := refchess.MustFEN(StartPosFEN)
	for _, how := range []string{"StartPos", "FromFEN"} {
		var games []*game
		for i := 0; i < 4; i++ {
			g := &game{p: start, keys: []refchess.Key{start.Key()}}
			if how == "StartPos" {
				g.b = board.StartPos()
			} else {
				g.b, _ = board.FromFEN(StartPosFEN)
			}
			games = append(games, g)
		}
		allowed := c10Allowed(c10Roots[0].alphabet)
		for ply := 0; ply < ev.Pick(r, 160, 300); ply++ {
			for gi, g := range games {
				var buf [256]refchess.Move
				var cand []refchess.Move
				for _, m := range g.p.LegalMoves(buf[:0]) {
					if allowed[m.String()] {
						cand = append(cand, m)
					}
				}
				m := cand[(ply*(gi+1)+gi)%len(cand)]
				g.b.MakeMove(move.Move(m.Enc()))
				g.p = g.p.Make(m)
				g.keys = append(g.keys, g.p.Key())
				g.path = append(g.path, m.String())
				steps.Add(1)
				if got, want := int(g.b.Threefold()), c10Count(g.keys); got != want {
					r.Fail("count/interleaved-games", c10Case{FEN: StartPosFEN, Moves: append([]string(nil), g.path...), Via: "api"},
						"game %d of 4 boards from %s advanced in interleaved order, after %d plies: Threefold()=%d, true count %d", gi, how, len(g.path), got, want)
					return
				}
			}
		}
	}
}
