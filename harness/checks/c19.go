package checks

import (
	"encoding/json"
	"fmt"
	"math"
	"reflect"
	"slices"
	"sync/atomic"

	"github.com/paulsonkoly/chess-3/board"
	. "github.com/paulsonkoly/chess-3/chess"
	"github.com/paulsonkoly/chess-3/eval"
	"github.com/paulsonkoly/chess-3/tools/tuner/tuning"

	"verif/ev"
	"verif/refchess"
	"verif/universe"
)

// C19 — the tuner optimises the same evaluation the engine plays with.

type c19Case struct {
	FEN     string   `json:"fen,omitempty"`
	Targets []string `json:"targets,omitempty"`
}

const c19Envelope = 2.25

// c19Diff evaluates fen (loaded without hash, as the tuner does) both ways.
func c19Diff(rep *tuning.EngineRep, b *board.Board, fen []byte) (float64, float64, error) {
	if err := board.ParseFEN(b, fen); err != nil {
		return 0, 0, err
	}
	f := rep.Eval(b)
	i := float64(eval.Eval(b, &eval.Coefficients))
	if b.STM == Black {
		i = -i // the tuner's convention is white-relative
	}
	return f, i, nil
}

// field inventory of the coefficient set, by the harness's own reflection walk
type c19Field struct {
	name  string
	first int // ordinal of the field's first coefficient
	count int
}

func c19Fields() ([]c19Field, int) {
	t := reflect.TypeOf(eval.CoeffSet[float64]{})
	var out []c19Field
	total := 0
	var size func(t reflect.Type) int
	size = func(t reflect.Type) int {
		if t.Kind() == reflect.Array {
			return t.Len() * size(t.Elem())
		}
		return 1
	}
	for i := 0; i < t.NumField(); i++ {
		n := size(t.Field(i).Type)
		out = append(out, c19Field{t.Field(i).Name, total, n})
		total += n
	}
	return out, total
}

// c19Ordinals returns an EngineRep in which every coefficient holds its own
// ordinal+1 (row-major within a field, fields in declaration order).
func c19Ordinals() tuning.EngineRep {
	var rep tuning.EngineRep
	v := reflect.ValueOf((*eval.CoeffSet[float64])(&rep)).Elem()
	n := 0
	var fill func(v reflect.Value)
	fill = func(v reflect.Value) {
		if v.Kind() == reflect.Array {
			for i := 0; i < v.Len(); i++ {
				fill(v.Index(i))
			}
			return
		}
		n++
		v.SetFloat(float64(n))
	}
	for i := 0; i < v.NumField(); i++ {
		fill(v.Field(i))
	}
	return rep
}

func c19Flatten(rep *tuning.EngineRep) []float64 {
	v := reflect.ValueOf((*eval.CoeffSet[float64])(rep)).Elem()
	var out []float64
	var walk func(v reflect.Value)
	walk = func(v reflect.Value) {
		if v.Kind() == reflect.Array {
			for i := 0; i < v.Len(); i++ {
				walk(v.Index(i))
			}
			return
		}
		out = append(out, v.Float())
	}
	for i := 0; i < v.NumField(); i++ {
		walk(v.Field(i))
	}
	return out
}

// c19Vector checks the vector mapping for one subset of groups.
func c19Vector(fields []c19Field, total int, targets []string) string {
	var want []float64
	for _, f := range fields {
		if slices.Contains(targets, f.name) {
			for k := 0; k < f.count; k++ {
				want = append(want, float64(f.first+k+1))
			}
		}
	}
	rep := c19Ordinals()
	first := rep.ToVector(targets) // kept alive until the end: later reads must not disturb it
	got := first.VectorToSlice()
	if !slices.Equal(got, want) {
		return fmt.Sprintf("ToVector lists %d coefficients, the selected fields hold %d (first difference at %d)", len(got), len(want), firstDiff(got, want))
	}
	// SetVector into a zero rep, then read back; other fields stay untouched
	var z tuning.EngineRep
	z.SetVector(tuning.VectorFromSlice(slices.Clone(want)), targets)
	flat := c19Flatten(&z)
	for _, f := range fields {
		sel := slices.Contains(targets, f.name)
		for k := 0; k < f.count; k++ {
			exp := 0.0
			if sel {
				exp = float64(f.first + k + 1)
			}
			if flat[f.first+k] != exp {
				return fmt.Sprintf("SetVector: coefficient %s[%d] holds %v, expected %v", f.name, k, flat[f.first+k], exp)
			}
		}
	}
	if back := z.ToVector(targets).VectorToSlice(); !slices.Equal(back, want) {
		return "SetVector followed by ToVector is not the identity"
	}
	// TunedParams: index i addresses vector element i, writing through the pointer changes element i only
	i := 0
	for ix, ptr := range rep.TunedParams(targets) {
		if ix != i {
			return fmt.Sprintf("TunedParams yields index %d at position %d", ix, i)
		}
		if i >= len(want) {
			return "TunedParams yields more parameters than ToVector"
		}
		if *ptr != want[i] {
			return fmt.Sprintf("TunedParams index %d points at %v, vector element is %v", i, *ptr, want[i])
		}
		old := *ptr
		*ptr = -1
		after := c19Flatten(&rep)
		changed := 0
		for j, x := range after {
			if x != float64(j+1) {
				changed++
				if float64(j+1) != old {
					return fmt.Sprintf("writing through parameter %d changed coefficient ordinal %d", i, j+1)
				}
			}
		}
		if changed != 1 {
			return fmt.Sprintf("writing through parameter %d changed %d coefficients", i, changed)
		}
		*ptr = old
		i++
	}
	if i != len(want) {
		return fmt.Sprintf("TunedParams yields %d parameters, ToVector %d", i, len(want))
	}
	// the SAME coefficient set asked for another subset afterwards (the complement): nothing may be remembered
	// from the first request
	var other []string
	var want2 []float64
	for _, f := range fields {
		if !slices.Contains(targets, f.name) {
			other = append(other, f.name)
			for k := 0; k < f.count; k++ {
				want2 = append(want2, float64(f.first+k+1))
			}
		}
	}
	i = 0
	for ix, ptr := range rep.TunedParams(other) {
		if ix != i || i >= len(want2) || *ptr != want2[i] {
			return fmt.Sprintf("the same coefficient set asked for %v after %v: TunedParams yields index %d pointing at %v at position %d, expected ordinal %v", other, targets, ix, *ptr, i, at(want2, i))
		}
		i++
	}
	if i != len(want2) {
		return fmt.Sprintf("the same coefficient set asked for %v after %v: TunedParams yields %d parameters, expected %d", other, targets, i, len(want2))
	}
	if back := rep.ToVector(other).VectorToSlice(); !slices.Equal(back, want2) {
		return fmt.Sprintf("the same coefficient set asked for %v after %v: ToVector differs at %d", other, targets, firstDiff(back, want2))
	}
	if still := first.VectorToSlice(); !slices.Equal(still, want) {
		return fmt.Sprintf("the vector read first for %v no longer holds its coefficients after other vectors were read (first difference at %d)", targets, firstDiff(still, want))
	}
	return ""
}

func at(xs []float64, i int) any {
	if i < len(xs) {
		return xs[i]
	}
	return "none (past the end)"
}

func firstDiff(a, b []float64) int {
	for i := 0; i < min(len(a), len(b)); i++ {
		if a[i] != b[i] {
			return i
		}
	}
	return min(len(a), len(b))
}

func c19Replay(class string, raw json.RawMessage) (bool, string) {
	var c c19Case
	if err := json.Unmarshal(raw, &c); err != nil {
		return false, err.Error()
	}
	if c.FEN != "" {
		rep := tuning.EngineCoeffs()
		var b board.Board
		f, i, err := c19Diff(&rep, &b, []byte(c.FEN))
		if err != nil {
			return false, err.Error()
		}
		if math.Abs(f-i) >= c19Envelope {
			return true, fmt.Sprintf("%s: float evaluation %.3f, integer evaluation %.0f (white-relative)", c.FEN, f, i)
		}
		return false, fmt.Sprintf("within the envelope: %.3f vs %.0f", f, i)
	}
	fields, total := c19Fields()
	if msg := c19Vector(fields, total, c.Targets); msg != "" {
		return true, msg
	}
	return false, "vector mapping faithful"
}

func init() {
	register(&Check{ID: "C19", Level: "model_checking", Run: runC19, Replay: c19Replay})
}

func runC19(r *ev.Run) {
	var positions, nonzero atomic.Int64
	var maxDiff atomic.Uint64
	type worker struct {
		rep tuning.EngineRep
		b   board.Board
		buf []byte
	}
	newW := func() *worker { return &worker{rep: tuning.EngineCoeffs()} }
	judge := func(w *worker, p *refchess.Pos) {
		positions.Add(1)
		w.buf = p.AppendFEN(w.buf[:0])
		f, i, err := c19Diff(&w.rep, &w.b, w.buf)
		if err != nil {
			return
		}
		if i != 0 {
			nonzero.Add(1)
		}
		d := math.Abs(f - i)
		for {
			old := maxDiff.Load()
			if d <= math.Float64frombits(old) || maxDiff.CompareAndSwap(old, math.Float64bits(d)) {
				break
			}
		}
		if d >= c19Envelope {
			r.Fail("envelope", c19Case{FEN: p.FEN()}, "%s: float evaluation %.3f, integer evaluation %.0f (white-relative), difference %.3f >= %.2f", p.FEN(), f, i, d, c19Envelope)
		}
	}
	classes := universe.ThreeMan()
	// the classes with an evaluation branch of their own are always in, the others rotate with the seed
	classes = append(classes, parseClasses(uniqStrings(append(append([]string(nil), evalSpecialClasses...), seedPick(evalClasses, r.Seed+2, ev.Pick(r, 2, 10))...)))...)
	r.Set("classes", classNames(classes))
	var sc atomic.Int64
	forClasses(r, classes, universe.Opts{NoRights: true, NoEP: true}, newW, func(w *worker, p *refchess.Pos) {
		q := *p
		q.Half = int(sc.Add(1) % 101) // the clock scales the evaluation: all values 0..100 rotate
		judge(w, &q)
	})
	// dense positions
	roots := universe.AllRoots()
	depth := ev.Pick(r, 2, 3)
	ev.Parallel(len(roots), func(wk, item int) {
		if r.Expired() {
			return
		}
		root := roots[item]
		w := newW()
		wl := &universe.Walker{}
		wl.Visit = func(wl *universe.Walker, p *refchess.Pos, left int) bool {
			if p.Half <= 100 {
				n := p.Normalized()
				judge(w, &n)
			}
			return !r.Expired()
		}
		b, _ := board.FromFEN(root.FEN)
		wl.Walk(&root.Pos, b, depth)
		if item%50 == 0 {
			r.Sample(map[string]any{"root": root.FEN, "depth": depth})
		}
	})
	// promoted material with (nearly) full boards: game phase beyond its cap
	w := newW()
	start := refchess.MustFEN(StartPosFEN)
	promo := 0
	for k := 0; k <= 3; k++ {
		for _, x := range []int8{refchess.Queen, refchess.Rook, refchess.Bishop, refchess.Knight} {
			for j := 0; j <= 3; j++ {
				for _, y := range []int8{refchess.Queen, refchess.Rook, refchess.Knight} {
					p := start
					for f := 0; f < k; f++ {
						p.Sq[8+f] = x
					}
					for f := 0; f < j; f++ {
						p.Sq[55-f] = -y
					}
					p.Castle = 0
					for stm := int8(0); stm < 2; stm++ {
						p.Stm = stm
						if p.Valid() {
							promo++
							judge(w, &p)
						}
					}
				}
			}
		}
	}
	r.Set("promoted_material_positions", promo)

	// vector mapping: subsets of the coefficient groups
	fields, total := c19Fields()
	var names []string
	for _, f := range fields {
		names = append(names, f.name)
	}
	var subsets [][]string
	n := len(names)
	if r.Thorough() {
		for mask := 0; mask < 1<<n; mask++ {
			subsets = append(subsets, maskNames(names, mask)) // every subset of the groups
		}
	} else {
		for mask := 0; mask < 1<<n; mask++ {
			if c := bitsSet(mask); c <= 2 || c >= n-2 {
				subsets = append(subsets, maskNames(names, mask))
			}
		}
	}
	subsets = append(subsets, tuning.DefaultTargets)
	var vec atomic.Int64
	// the first subsets one after another on this goroutine: a mapping that keeps state between calls (a cache keyed
	// by the coefficient set, a shared buffer) is judged deterministically before several goroutines use it at once
	// (where the same defect is a data race that can take the whole process down instead of giving a verdict)
	seq := min(len(subsets), 800)
	for item := 0; item < seq; item++ {
		vec.Add(1)
		if msg := c19Vector(fields, total, subsets[item]); msg != "" {
			r.Fail("vector", c19Case{Targets: subsets[item]}, "targets %v: %s", subsets[item], msg)
		}
	}
	if !r.Failed() {
		ev.Parallel(len(subsets)-seq, func(wk, item int) {
			item += seq
			vec.Add(1)
			if msg := c19Vector(fields, total, subsets[item]); msg != "" {
				r.Fail("vector", c19Case{Targets: subsets[item]}, "targets %v: %s", subsets[item], msg)
			}
		})
	}
	// every declared default target must name a real field (otherwise it is silently never tuned)
	for _, tname := range tuning.DefaultTargets {
		if !slices.Contains(names, tname) {
			r.Fail("vector/unknown-target", c19Case{Targets: []string{tname}}, "DefaultTargets names %q, which is not a coefficient group", tname)
		}
	}
	r.Sample(map[string]any{"targets": tuning.DefaultTargets, "coefficients": total})
	r.States.Store(positions.Load())
	r.Transitions.Store(positions.Load() + vec.Load())
	r.Validated.Store(positions.Load())
	r.Evals.Store(positions.Load() + vec.Load())
	r.Nontrivial.Store(nonzero.Load())
	r.Set("max_abs_difference", math.Float64frombits(maxDiff.Load()))
	r.Set("coefficient_groups", n)
	r.Set("coefficients", total)
	r.Set("subsets_checked", vec.Load())
	r.Set("rule", "positions of the listed classes (half-move clock rotating through 0..100), tree nodes below the root corpus and full boards with promoted material, loaded with ParseFEN (no hash) as the tuner does: |EngineRep.Eval - white-relative Eval[Score]| < 2.25; vector mapping for subsets of the coefficient groups (quick: all subsets of size <=2 and >= n-2 and DefaultTargets; thorough: every one of the 2^n subsets), every coefficient holding its own ordinal: ToVector lists exactly the targeted ordinals in order, SetVector/ToVector is the identity and leaves other fields alone, TunedParams index i addresses vector element i only, and the same coefficient set asked for the complementary subset right afterwards is answered afresh; non-trivial = positions with non-zero evaluation")
}

func bitsSet(m int) int {
	c := 0
	for ; m != 0; m &= m - 1 {
		c++
	}
	return c
}

func maskNames(names []string, mask int) []string {
	var out []string
	for i, n := range names {
		if mask&(1<<i) != 0 {
			out = append(out, n)
		}
	}
	return out
}
