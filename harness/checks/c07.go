package checks

import (
	"encoding/json"
	"strings"
	"sync/atomic"

	"github.com/paulsonkoly/chess-3/search"

	"verif/ev"
	"verif/refchess"
	"verif/universe"
)

// C07 — reported variations are legal lines and agree with the move played.

type c07Case struct {
	Req    searchReq   `json:"request"`
	Before []searchReq `json:"searched_before,omitempty"` // searches run on the same instance before (table warmed)
}

func c07Replay(class string, raw json.RawMessage) (bool, string) {
	if strings.HasPrefix(class, "poisoned/") {
		return poisonReplay("C07", raw)
	}
	if strings.HasPrefix(class, "saturated-histories/") {
		return saturatedReplay("C07", raw)
	}
	if strings.HasPrefix(class, "ponderhit/") {
		var c c07PonderCase
		if err := json.Unmarshal(raw, &c); err != nil {
			return false, err.Error()
		}
		if !Instrumented {
			return false, "a ponderhit fault plan can only be replayed by the instrumented binary (bin/check C07 --replay)"
		}
		cls, msg, _ := c07PonderOne(search.New(32000), c)
		return cls != "", msg
	}
	var c c07Case
	if err := json.Unmarshal(raw, &c); err != nil {
		return false, err.Error()
	}
	s := search.New(c.Req.TT)
	for _, q := range c.Before {
		h, err := newHistory(q.FEN, q.Moves)
		if err != nil {
			return false, err.Error()
		}
		runSearch(s, h.B, q)
	}
	h, err := newHistory(c.Req.FEN, c.Req.Moves)
	if err != nil {
		return false, err.Error()
	}
	res := runSearch(s, h.B, c.Req)
	if cls, msg := judgePV(h, &res); cls != "" {
		return true, msg
	}
	return false, "variations legal and consistent"
}

func init() {
	register(&Check{ID: "C07", Level: "model_checking", Run: runC07, Replay: c07Replay})
}

// c07Shuffles: roots with a game history in which repetitions and the clock
// cut variations short (one-move variations, draws inside the tree).
var c07Shuffles = []searchReq{
	{FEN: "6k1/5ppp/8/8/8/8/5PPP/3Q2K1 w - - 0 1", Moves: []string{"d1g4", "g8h8", "g4f4", "h8g8", "f4g4", "g8h8"}},
	{FEN: "6k1/5ppp/8/8/8/8/5PPP/3Q2K1 w - - 0 1", Moves: []string{"d1g4", "g8h8", "g4f4", "h8g8"}},
	{FEN: "r3k2r/8/8/8/8/8/8/R3K2R w KQkq - 0 1", Moves: []string{"a1b1", "a8b8", "b1a1", "b8a8", "a1b1", "a8b8"}},
	{FEN: "8/8/4k3/8/8/4K3/4P3/8 w - - 94 60", Moves: []string{"e3d3", "e6d6", "d3e3"}},
	{FEN: "rnbqkbnr/pppppppp/8/8/8/8/PPPPPPPP/RNBQKBNR w KQkq - 0 1", Moves: []string{"g1f3", "g8f6", "f3g1", "f6g8", "g1f3"}},
	{FEN: "7k/8/8/8/8/8/r7/1R5K w - - 95 70", Moves: []string{"b1c1", "a2b2"}},
}

// shuffleHistories returns move lists m n m' n' (and m n m') where m, n are
// reversible non-capturing piece moves of the two sides and m', n' undo them;
// up to k choices per side.
func shuffleHistories(p refchess.Pos, k int) [][]string {
	rev := func(q *refchess.Pos) []refchess.Move {
		var buf [256]refchess.Move
		var out []refchess.Move
		for _, m := range q.LegalMoves(buf[:0]) {
			pc := q.Sq[m.From]
			if pc < 0 {
				pc = -pc
			}
			if q.Sq[m.To] != 0 || pc == refchess.Pawn || m.Promo != 0 {
				continue
			}
			if (pc == refchess.King || pc == refchess.Rook) && q.Castle != 0 {
				continue // would lose castling rights: the manoeuvre would not repeat the position
			}
			out = append(out, m)
			if len(out) == k {
				break
			}
		}
		return out
	}
	var res [][]string
	for _, m := range rev(&p) {
		p1 := p.Make(m)
		for _, n := range rev(&p1) {
			p2 := p1.Make(n)
			mb := refchess.Move{From: m.To, To: m.From}
			nb := refchess.Move{From: n.To, To: n.From}
			ok := func(q *refchess.Pos, x refchess.Move) bool {
				var buf [256]refchess.Move
				for _, y := range q.LegalMoves(buf[:0]) {
					if y == x {
						return true
					}
				}
				return false
			}
			if !ok(&p2, mb) {
				continue
			}
			p3 := p2.Make(mb)
			if !ok(&p3, nb) {
				continue
			}
			res = append(res, []string{m.String(), n.String(), mb.String(), nb.String()})
			res = append(res, []string{m.String(), n.String(), mb.String()})
		}
	}
	return res
}

func runC07(r *ev.Run) {
	var searches, lines, pvMoves, oneMovePV, ponders atomic.Int64
	account := func(res *searchRes) {
		searches.Add(1)
		for _, il := range res.Infos {
			if len(il.PV) > 0 {
				lines.Add(1)
				pvMoves.Add(int64(len(il.PV)))
				if len(il.PV) == 1 && il.Depth >= 2 {
					oneMovePV.Add(1)
				}
			}
		}
		if res.Ponder != 0 {
			ponders.Add(1)
		}
	}
	// (1) fresh table: roots x depth x table size x hard-budget sweeps
	var roots []searchReq
	for _, root := range universe.AllRoots() {
		roots = append(roots, searchReq{FEN: root.FEN})
	}
	roots = append(roots, c07Shuffles...)
	roots = append(roots, c06Histories...)
	// generated shuffle histories: every root followed by a reversible out-and-back
	// manoeuvre of both sides (the root position has then occurred twice, so moves
	// repeating it score as draws inside the tree and cut variations short)
	nShuffle := 0
	for _, root := range universe.AllRoots() {
		for _, hist := range shuffleHistories(root.Pos, ev.Pick(r, 4, 6)) {
			roots = append(roots, searchReq{FEN: root.FEN, Moves: hist})
			nShuffle++
		}
	}
	r.Set("generated_shuffle_histories", nShuffle)
	maxDepth := ev.Pick(r, 6, 7)
	ev.Parallel(len(roots), func(worker, item int) {
		if r.Expired() {
			return
		}
		for _, tt := range []int{32000, 1 << 20} {
			s := search.New(tt)
			for d := 1; d <= maxDepth; d++ {
				if r.Expired() {
					return
				}
				req := roots[item]
				req.Depth, req.TT, req.Nodes, req.SoftNodes = d, tt, -1, -1
				h, err := newHistory(req.FEN, req.Moves)
				if err != nil {
					r.Fail("harness", c07Case{Req: req}, "%v", err)
					return
				}
				s.Clear()
				res := runSearch(s, h.B, req)
				account(&res)
				if cls, msg := judgePV(h, &res); cls != "" {
					r.Fail(cls, c07Case{Req: req}, "%+v: %s", req, msg)
				}
				// searches ending at a soft limit after every iteration (how every game move under time control ends)
				if d == maxDepth {
					for _, il := range res.Infos {
						if !il.Complete || il.Nodes == 0 {
							continue
						}
						q := req
						q.SoftNodes = il.Nodes - 1
						s.Clear()
						rs := runSearch(s, h.B, q)
						account(&rs)
						if cls, msg := judgePV(h, &rs); cls != "" {
							r.Fail("soft/"+cls, c07Case{Req: q}, "%+v: %s", q, msg)
							break
						}
					}
				}
				// abort points on a subset: the move returned must still head the last reported line
				if d == 3 && tt == 32000 && (item%3 == int(r.Seed%3) || r.Thorough()) {
					for _, k := range budgetPoints(res.Nodes, ev.Pick(r, 400, 4000)) {
						q := req
						q.Nodes = k
						s.Clear()
						rk := runSearch(s, h.B, q)
						account(&rk)
						if cls, msg := judgePV(h, &rk); cls != "" {
							r.Fail("aborted/"+cls, c07Case{Req: q}, "%+v: %s", q, msg)
							break
						}
					}
				}
			}
		}
		if item%40 == 0 {
			r.Sample(map[string]any{"root": roots[item], "depths": maxDepth, "tables": []int{32000, 1 << 20}})
		}
	})

	// (2) warmed tables: engine-vs-engine games with one persistent instance
	// per table size; every search judged; tiny table = heavy collisions
	games := ev.Pick(r, 64, 256)
	plies := ev.Pick(r, 40, 80)
	br := universe.BenchRoots()
	pr := universe.PerftRoots()
	ev.Parallel(games, func(worker, item int) {
		if r.Expired() {
			return
		}
		tt := []int{32000, 1 << 20}[item%2]
		start := searchReq{FEN: br[(item+int(r.Seed)*7)%len(br)].FEN}
		switch item % 4 {
		case 1:
			start = searchReq{FEN: pr[(item+int(r.Seed)*5)%len(pr)].FEN}
		case 3:
			start = c07Shuffles[(item/4)%len(c07Shuffles)]
		}
		h, err := newHistory(start.FEN, start.Moves)
		if err != nil {
			return
		}
		s := search.New(tt)
		var before []searchReq
		moves := append([]string(nil), start.Moves...)
		for ply := 0; ply < plies && !r.Expired(); ply++ {
			req := searchReq{FEN: start.FEN, Moves: append([]string(nil), moves...), Depth: 3 + (ply+item)%3, Nodes: -1, SoftNodes: -1, TT: tt}
			if ply%5 == 4 {
				req.Nodes = 150 + 37*ply // some searches end by abort
			}
			if ply%5 == 2 {
				req.SoftNodes = 100 + 53*ply // some end at a soft limit
			}
			res := runSearch(s, h.B, req)
			account(&res)
			if cls, msg := judgePV(h, &res); cls != "" {
				r.Fail("warm/"+cls, c07Case{Req: req, Before: before}, "game %d ply %d %+v (table warmed by %d searches): %s", item, ply, req, len(before), msg)
				return
			}
			before = append(before, req)
			if res.Move == 0 {
				break
			}
			if err := h.play(res.Move.String()); err != nil {
				break // illegal move: C06's business
			}
			moves = append(moves, res.Move.String())
		}
	})

	// table states: the entry of the root / of a position one move below it holds an arbitrary move encoding
	pz := poisonSweep(r, "C07")
	searches.Add(pz)
	r.Set("poisoned_table_searches", pz)

	// very long variations (45-63 moves) at iteration depths up to the maximum
	searches.Add(deepSweep(r, "C07"))

	// the ponderhit delivered at every poll of its channel (instrumented fault plans on the real search)
	pRuns, pHits := c07PonderSweep(r)
	searches.Add(pRuns)
	r.Set("ponderhit_sweep", map[string]int64{"searches": pRuns, "ponderhit_taken": pHits})

	r.Evals.Store(searches.Load())
	r.Nontrivial.Store(lines.Load())
	r.States.Store(searches.Load())
	r.Transitions.Store(pvMoves.Load())
	r.Validated.Store(pvMoves.Load())
	r.Set("searches", searches.Load())
	r.Set("distinct_outcomes", map[string]int64{"reported_variations": lines.Load(), "variation_moves_replayed": pvMoves.Load(), "one_move_variations_at_depth_ge_2": oneMovePV.Load(), "searches_with_ponder_move": ponders.Load()})
	r.Set("exhaustive", false)
	r.Set("rule", "fresh table: every root of the corpus plus shuffle-history roots x depth 1..5(7) x table {32000 B, 1 MiB}, hard-budget sweeps at depth 3 on a third of the roots, a soft node limit after every iteration of the deepest search; very deep searches of simple endings (iteration depth up to 63, reported variations of 45-63 moves); poisoned tables: the table entry of the root (18 roots x every from/to pair, and every value of the promotion bits on own pawns) or of a position one move below it (every encoding whose from square holds a man of the side to move) holds an arbitrary move, as a colliding entry would leave it; pondering searches whose ponderhit arrives at every poll of its channel (instrumented fault plans); warmed table: engine-vs-engine games with one persistent instance (every search judged, some ending by abort); oracle: every reported variation replays legally in the reference model from the root, returned move = head of the most recent non-empty variation, ponder legal after it, reported depths strictly increase and node counts never decrease; states = searches, transitions = variation moves replayed; non-trivial = reported variations")
	r.Assume("the space of table states is sampled by deterministic games, not exhausted; each search is an exhaustive check of all its reported lines")
}
