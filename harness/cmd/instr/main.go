// instr rewrites the synchronisation operations of the given packages of
// /repo's working tree into calls of verif/vsched and writes the rewritten
// files plus an overlay.json for `go build -overlay`. Only operations are
// rewritten, never types. Rules are keyed on go/types information.
//
// usage: instr <outdir> <pkgdir>...     (pkgdir relative to /repo, e.g. uci search)
package main

import (
	"bytes"
	"encoding/json"
	"fmt"
	"go/ast"
	"go/build"
	"go/build/constraint"
	"go/format"
	"go/importer"
	"go/parser"
	"go/token"
	"go/types"
	"os"
	"path/filepath"
	"sort"
	"strings"
)

// repo is the tree under test (VERIF_REPO lets a snapshot copy be checked side by side).
var repo = func() string {
	if r := os.Getenv("VERIF_REPO"); r != "" {
		return r
	}
	return "/repo"
}()

func die(format string, args ...any) {
	fmt.Fprintf(os.Stderr, "instrument error: "+format+"\n", args...)
	os.Exit(2)
}

type rewriter struct {
	fset    *token.FileSet
	info    *types.Info
	pkg     *types.Package
	counts  map[string]int
	tmp     int
	changed bool
}

func main() {
	if len(os.Args) < 3 {
		die("usage: instr <outdir> <pkgdir>...")
	}
	out := os.Args[1]
	if err := os.MkdirAll(out, 0o755); err != nil {
		die("%v", err)
	}
	if err := os.Chdir(repo); err != nil {
		die("%v", err)
	}
	build.Default.BuildTags = append(build.Default.BuildTags, "verif")
	overlay := map[string]string{}
	total := map[string]int{}
	for _, dir := range os.Args[2:] {
		counts := instrumentPackage(dir, out, overlay)
		var keys []string
		for k := range counts {
			keys = append(keys, k)
			total[dir+"/"+k] = counts[k]
		}
		sort.Strings(keys)
		var parts []string
		for _, k := range keys {
			parts = append(parts, fmt.Sprintf("%s=%d", k, counts[k]))
		}
		fmt.Printf("instr %s: %s\n", dir, strings.Join(parts, " "))
	}
	data, _ := json.MarshalIndent(map[string]any{"Replace": overlay}, "", " ")
	if err := os.WriteFile(filepath.Join(out, "overlay.json"), data, 0o644); err != nil {
		die("%v", err)
	}
	cj, _ := json.MarshalIndent(total, "", " ")
	os.WriteFile(filepath.Join(out, "sites.json"), cj, 0o644)
}

func fileActive(path string, src []byte) bool {
	// honour //go:build lines with tags {verif, linux, amd64, ...}
	f, err := parser.ParseFile(token.NewFileSet(), path, src, parser.PackageClauseOnly|parser.ParseComments)
	if err != nil {
		return true
	}
	for _, cg := range f.Comments {
		for _, c := range cg.List {
			if constraint.IsGoBuild(c.Text) {
				x, err := constraint.Parse(c.Text)
				if err != nil {
					return true
				}
				return x.Eval(func(tag string) bool {
					return tag == "verif" || tag == "linux" || tag == "amd64" || tag == "gc" || strings.HasPrefix(tag, "go1")
				})
			}
		}
	}
	return true
}

func instrumentPackage(dir, out string, overlay map[string]string) map[string]int {
	fset := token.NewFileSet()
	abs := filepath.Join(repo, dir)
	ents, err := os.ReadDir(abs)
	if err != nil {
		die("%v", err)
	}
	var files []*ast.File
	var names []string
	for _, e := range ents {
		n := e.Name()
		if !strings.HasSuffix(n, ".go") || strings.HasSuffix(n, "_test.go") {
			continue
		}
		src, err := os.ReadFile(filepath.Join(abs, n))
		if err != nil {
			die("%v", err)
		}
		if !fileActive(n, src) {
			continue
		}
		f, err := parser.ParseFile(fset, filepath.Join(abs, n), src, parser.SkipObjectResolution)
		if err != nil {
			die("parse %s: %v", n, err)
		}
		files = append(files, f)
		names = append(names, n)
	}
	info := &types.Info{Types: map[ast.Expr]types.TypeAndValue{}, Uses: map[*ast.Ident]types.Object{}, Defs: map[*ast.Ident]types.Object{}, Selections: map[*ast.SelectorExpr]*types.Selection{}}
	conf := types.Config{Importer: importer.ForCompiler(fset, "source", nil), Error: func(err error) {}}
	pkg, err := conf.Check("github.com/paulsonkoly/chess-3/"+dir, fset, files, info)
	if err != nil {
		die("type-check %s: %v", dir, err)
	}
	rw := &rewriter{fset: fset, info: info, pkg: pkg, counts: map[string]int{}}
	for i, f := range files {
		rw.changed = false
		rw.file(f)
		if !rw.changed {
			continue
		}
		if leftover := rw.leftovers(f); leftover != "" {
			die("%s/%s: %s", dir, names[i], leftover)
		}
		addImport(f, "verif/vsched")
		f.Comments = nil // positions are no longer meaningful; directives are not expected in rewritten files
		var buf bytes.Buffer
		if err := format.Node(&buf, fset, f); err != nil {
			die("print %s: %v", names[i], err)
		}
		dst := filepath.Join(out, strings.ReplaceAll(dir, "/", "_")+"_"+names[i])
		if err := os.WriteFile(dst, buf.Bytes(), 0o644); err != nil {
			die("%v", err)
		}
		overlay[filepath.Join(abs, names[i])] = dst
	}
	return rw.counts
}

func addImport(f *ast.File, path string) {
	spec := &ast.ImportSpec{Path: &ast.BasicLit{Kind: token.STRING, Value: fmt.Sprintf("%q", path)}}
	for _, d := range f.Decls {
		if g, ok := d.(*ast.GenDecl); ok && g.Tok == token.IMPORT {
			g.Specs = append(g.Specs, spec)
			if !g.Lparen.IsValid() {
				g.Lparen = g.Pos()
				g.Rparen = g.End()
			}
			return
		}
	}
	f.Decls = append([]ast.Decl{&ast.GenDecl{Tok: token.IMPORT, Specs: []ast.Spec{spec}}}, f.Decls...)
}

// ---- type predicates ----------------------------------------------------------

func (rw *rewriter) typeOf(e ast.Expr) types.Type {
	if tv, ok := rw.info.Types[e]; ok {
		return tv.Type
	}
	return nil
}

func (rw *rewriter) isChan(e ast.Expr) bool {
	t := rw.typeOf(e)
	if t == nil {
		return false
	}
	_, ok := t.Underlying().(*types.Chan)
	return ok
}

func namedIs(t types.Type, pkg, name string) (isNamed, isPtr bool) {
	if p, ok := t.(*types.Pointer); ok {
		n, _ := namedIs(p.Elem(), pkg, name)
		return n, true
	}
	n, ok := t.(*types.Named)
	if !ok || n.Obj().Pkg() == nil {
		return false, false
	}
	return n.Obj().Pkg().Path() == pkg && n.Obj().Name() == name, false
}

// pkgFunc reports whether call is pkg.name(...).
func (rw *rewriter) pkgFunc(call *ast.CallExpr, pkg, name string) bool {
	sel, ok := call.Fun.(*ast.SelectorExpr)
	if !ok || sel.Sel.Name != name {
		return false
	}
	id, ok := sel.X.(*ast.Ident)
	if !ok {
		return false
	}
	pn, ok := rw.info.Uses[id].(*types.PkgName)
	return ok && pn.Imported().Path() == pkg
}

func vcall(name string, args ...ast.Expr) *ast.CallExpr {
	return &ast.CallExpr{Fun: &ast.SelectorExpr{X: ast.NewIdent("vsched"), Sel: ast.NewIdent(name)}, Args: args}
}

func addr(e ast.Expr, isPtr bool) ast.Expr {
	if isPtr {
		return e
	}
	return &ast.UnaryExpr{Op: token.AND, X: e}
}

// ---- expression rewriting -------------------------------------------------------

func (rw *rewriter) expr(e ast.Expr) ast.Expr {
	switch x := e.(type) {
	case *ast.UnaryExpr:
		if x.Op == token.ARROW && rw.isChan(x.X) {
			rw.counts["recv"]++
			rw.changed = true
			return vcall("Recv", x.X)
		}
	case *ast.CallExpr:
		if id, ok := x.Fun.(*ast.Ident); ok {
			if _, isBuiltin := rw.info.Uses[id].(*types.Builtin); isBuiltin {
				switch id.Name {
				case "close":
					rw.counts["close"]++
					rw.changed = true
					return vcall("Close", x.Args[0])
				case "make":
					if t := rw.typeOf(x); t != nil {
						if _, ok := t.Underlying().(*types.Chan); ok {
							rw.counts["make"]++
							rw.changed = true
							return vcall("Reg", x)
						}
					}
				}
			}
		}
		if rw.pkgFunc(x, "time", "NewTimer") {
			rw.counts["newtimer"]++
			rw.changed = true
			return vcall("NewTimer", x.Args...)
		}
		if rw.pkgFunc(x, "time", "Now") {
			rw.counts["now"]++
			rw.changed = true
			return vcall("Now")
		}
		if rw.pkgFunc(x, "time", "After") {
			rw.counts["after"]++
			rw.changed = true
			return vcall("After", x.Args...)
		}
		if rw.pkgFunc(x, "time", "Until") {
			rw.counts["until"]++
			rw.changed = true
			return vcall("Until", x.Args...)
		}
		if rw.pkgFunc(x, "time", "Since") {
			rw.counts["since"]++
			rw.changed = true
			return vcall("Since", x.Args...)
		}
		if sel, ok := x.Fun.(*ast.SelectorExpr); ok {
			if t := rw.typeOf(sel.X); t != nil {
				if is, ptr := namedIs(t, "sync", "WaitGroup"); is {
					switch sel.Sel.Name {
					case "Go":
						rw.counts["wggo"]++
						rw.changed = true
						return vcall("WGGo", addr(sel.X, ptr), x.Args[0])
					case "Wait":
						rw.counts["wgwait"]++
						rw.changed = true
						return vcall("WGWait", addr(sel.X, ptr))
					}
				}
				if is, ptr := namedIs(t, "sync", "Pool"); is {
					switch sel.Sel.Name {
					case "Get":
						rw.counts["poolget"]++
						rw.changed = true
						return vcall("PoolGet", addr(sel.X, ptr))
					case "Put":
						rw.counts["poolput"]++
						rw.changed = true
						return vcall("PoolPut", addr(sel.X, ptr), x.Args[0])
					}
				}
				for _, mt := range []string{"Mutex", "RWMutex"} {
					if is, ptr := namedIs(t, "sync", mt); is {
						switch sel.Sel.Name {
						case "Lock", "Unlock":
							rw.counts["mutex"]++
							rw.changed = true
							return vcall(sel.Sel.Name, addr(sel.X, ptr))
						case "RLock", "RUnlock":
							rw.counts["mutex"]++
							rw.changed = true
							return vcall(sel.Sel.Name, addr(sel.X, ptr))
						}
					}
				}
				if is, _ := namedIs(t, "time", "Timer"); is && sel.Sel.Name == "Stop" {
					rw.counts["timerstop"]++
					rw.changed = true
					return vcall("TimerStop", sel.X)
				}
			}
		}
	}
	return e
}

// walkExprs rewrites every expression below n bottom-up.
func (rw *rewriter) walkExpr(e ast.Expr) ast.Expr {
	if e == nil {
		return nil
	}
	switch x := e.(type) {
	case *ast.CallExpr:
		x.Fun = rw.walkExpr(x.Fun)
		for i := range x.Args {
			x.Args[i] = rw.walkExpr(x.Args[i])
		}
	case *ast.UnaryExpr:
		x.X = rw.walkExpr(x.X)
	case *ast.BinaryExpr:
		x.X = rw.walkExpr(x.X)
		x.Y = rw.walkExpr(x.Y)
	case *ast.ParenExpr:
		x.X = rw.walkExpr(x.X)
	case *ast.SelectorExpr:
		x.X = rw.walkExpr(x.X)
	case *ast.StarExpr:
		x.X = rw.walkExpr(x.X)
	case *ast.IndexExpr:
		x.X = rw.walkExpr(x.X)
		x.Index = rw.walkExpr(x.Index)
	case *ast.SliceExpr:
		x.X = rw.walkExpr(x.X)
		x.Low, x.High, x.Max = rw.walkExpr(x.Low), rw.walkExpr(x.High), rw.walkExpr(x.Max)
	case *ast.TypeAssertExpr:
		x.X = rw.walkExpr(x.X)
	case *ast.KeyValueExpr:
		x.Value = rw.walkExpr(x.Value)
	case *ast.CompositeLit:
		for i := range x.Elts {
			x.Elts[i] = rw.walkExpr(x.Elts[i])
		}
	case *ast.FuncLit:
		rw.block(x.Body)
	}
	return rw.expr(e)
}

// ---- statement rewriting --------------------------------------------------------

func (rw *rewriter) file(f *ast.File) {
	for _, d := range f.Decls {
		switch x := d.(type) {
		case *ast.FuncDecl:
			if x.Body != nil {
				rw.block(x.Body)
			}
		case *ast.GenDecl:
			for _, s := range x.Specs {
				if vs, ok := s.(*ast.ValueSpec); ok {
					for i := range vs.Values {
						vs.Values[i] = rw.walkExpr(vs.Values[i])
					}
				}
			}
		}
	}
}

func (rw *rewriter) block(b *ast.BlockStmt) {
	if b == nil {
		return
	}
	b.List = rw.stmts(b.List)
}

func (rw *rewriter) stmts(list []ast.Stmt) []ast.Stmt {
	var out []ast.Stmt
	for _, s := range list {
		out = append(out, rw.stmt(s)...)
	}
	return out
}

func (rw *rewriter) fresh(prefix string) string {
	rw.tmp++
	return fmt.Sprintf("_vs%s%d", prefix, rw.tmp)
}

func (rw *rewriter) stmt(s ast.Stmt) []ast.Stmt {
	switch x := s.(type) {
	case *ast.SendStmt:
		rw.counts["send"]++
		rw.changed = true
		return []ast.Stmt{&ast.ExprStmt{X: vcall("Send", rw.walkExpr(x.Chan), rw.walkExpr(x.Value))}}
	case *ast.ExprStmt:
		x.X = rw.walkExpr(x.X)
	case *ast.AssignStmt:
		if len(x.Lhs) == 2 && len(x.Rhs) == 1 {
			if u, ok := x.Rhs[0].(*ast.UnaryExpr); ok && u.Op == token.ARROW && rw.isChan(u.X) {
				rw.counts["recv"]++
				rw.changed = true
				x.Rhs[0] = vcall("Recv2", rw.walkExpr(u.X))
				return []ast.Stmt{x}
			}
		}
		for i := range x.Rhs {
			x.Rhs[i] = rw.walkExpr(x.Rhs[i])
		}
		for i := range x.Lhs {
			x.Lhs[i] = rw.walkExpr(x.Lhs[i])
		}
	case *ast.DeclStmt:
		if g, ok := x.Decl.(*ast.GenDecl); ok {
			for _, sp := range g.Specs {
				if vs, ok := sp.(*ast.ValueSpec); ok {
					for i := range vs.Values {
						vs.Values[i] = rw.walkExpr(vs.Values[i])
					}
				}
			}
		}
	case *ast.ReturnStmt:
		for i := range x.Results {
			x.Results[i] = rw.walkExpr(x.Results[i])
		}
	case *ast.IncDecStmt:
		x.X = rw.walkExpr(x.X)
	case *ast.DeferStmt:
		if c, ok := rw.walkExpr(x.Call).(*ast.CallExpr); ok {
			x.Call = c
		}
	case *ast.GoStmt:
		rw.counts["go"]++
		rw.changed = true
		call := rw.walkExpr(x.Call).(*ast.CallExpr)
		// evaluate arguments first, as `go` does
		var pre []ast.Stmt
		for i, a := range call.Args {
			n := rw.fresh("arg")
			pre = append(pre, &ast.AssignStmt{Lhs: []ast.Expr{ast.NewIdent(n)}, Tok: token.DEFINE, Rhs: []ast.Expr{a}})
			call.Args[i] = ast.NewIdent(n)
		}
		lit := &ast.FuncLit{Type: &ast.FuncType{Params: &ast.FieldList{}}, Body: &ast.BlockStmt{List: []ast.Stmt{&ast.ExprStmt{X: call}}}}
		return append(pre, &ast.ExprStmt{X: vcall("Go", lit)})
	case *ast.BlockStmt:
		rw.block(x)
	case *ast.IfStmt:
		if x.Init != nil {
			x.Init = rw.one(x.Init)
		}
		x.Cond = rw.walkExpr(x.Cond)
		rw.block(x.Body)
		if x.Else != nil {
			x.Else = rw.one(x.Else)
		}
	case *ast.ForStmt:
		if x.Init != nil {
			x.Init = rw.one(x.Init)
		}
		x.Cond = rw.walkExpr(x.Cond)
		if x.Post != nil {
			x.Post = rw.one(x.Post)
		}
		rw.block(x.Body)
	case *ast.RangeStmt:
		x.X = rw.walkExpr(x.X)
		rw.block(x.Body)
		if rw.isChan(x.X) {
			rw.counts["range"]++
			rw.changed = true
			okName := rw.fresh("ok")
			var lhs ast.Expr = ast.NewIdent("_")
			tok := token.DEFINE
			if x.Key != nil {
				lhs = x.Key
				if x.Tok == token.ASSIGN {
					// v already declared: need a declared ok variable
					tok = token.ASSIGN
				}
			}
			var pre []ast.Stmt
			if tok == token.ASSIGN {
				pre = append(pre, &ast.DeclStmt{Decl: &ast.GenDecl{Tok: token.VAR, Specs: []ast.Spec{&ast.ValueSpec{Names: []*ast.Ident{ast.NewIdent(okName)}, Type: ast.NewIdent("bool")}}}})
			}
			recv := &ast.AssignStmt{Lhs: []ast.Expr{lhs, ast.NewIdent(okName)}, Tok: tok, Rhs: []ast.Expr{vcall("Recv2", x.X)}}
			brk := &ast.IfStmt{Cond: &ast.UnaryExpr{Op: token.NOT, X: ast.NewIdent(okName)}, Body: &ast.BlockStmt{List: []ast.Stmt{&ast.BranchStmt{Tok: token.BREAK}}}}
			body := append([]ast.Stmt{recv, brk}, x.Body.List...)
			return append(pre, &ast.ForStmt{Body: &ast.BlockStmt{List: body}})
		}
	case *ast.SwitchStmt:
		if x.Init != nil {
			x.Init = rw.one(x.Init)
		}
		x.Tag = rw.walkExpr(x.Tag)
		rw.block(x.Body)
	case *ast.TypeSwitchStmt:
		rw.block(x.Body)
	case *ast.CaseClause:
		for i := range x.List {
			x.List[i] = rw.walkExpr(x.List[i])
		}
		x.Body = rw.stmts(x.Body)
	case *ast.LabeledStmt:
		x.Stmt = rw.one(x.Stmt)
	case *ast.SelectStmt:
		return []ast.Stmt{rw.selectStmt(x)}
	}
	return []ast.Stmt{s}
}

func (rw *rewriter) one(s ast.Stmt) ast.Stmt {
	out := rw.stmt(s)
	if len(out) == 1 {
		return out[0]
	}
	return &ast.BlockStmt{List: out}
}

func (rw *rewriter) qualifier(p *types.Package) string {
	if p == rw.pkg {
		return ""
	}
	return p.Name()
}

func pure(e ast.Expr) bool {
	switch x := e.(type) {
	case *ast.Ident:
		return true
	case *ast.SelectorExpr:
		return pure(x.X)
	case *ast.ParenExpr:
		return pure(x.X)
	}
	return false
}

// selectStmt rewrites a select whose communication clauses are all receives.
func (rw *rewriter) selectStmt(x *ast.SelectStmt) ast.Stmt {
	rw.counts["select"]++
	rw.changed = true
	iN, vN, okN := rw.fresh("i"), rw.fresh("v"), rw.fresh("ok")
	var chans []ast.Expr
	hasDefault := false
	sw := &ast.SwitchStmt{Tag: ast.NewIdent(iN), Body: &ast.BlockStmt{}}
	idx := 0
	for _, c := range x.Body.List {
		cc := c.(*ast.CommClause)
		body := rw.stmts(cc.Body)
		if cc.Comm == nil {
			hasDefault = true
			sw.Body.List = append(sw.Body.List, &ast.CaseClause{List: []ast.Expr{&ast.UnaryExpr{Op: token.SUB, X: &ast.BasicLit{Kind: token.INT, Value: "1"}}}, Body: body})
			continue
		}
		var recv *ast.UnaryExpr
		var lhs []ast.Expr
		tok := token.DEFINE
		switch cm := cc.Comm.(type) {
		case *ast.ExprStmt:
			recv, _ = cm.X.(*ast.UnaryExpr)
		case *ast.AssignStmt:
			recv, _ = cm.Rhs[0].(*ast.UnaryExpr)
			lhs = cm.Lhs
			tok = cm.Tok
		default:
			die("select with a send case at %s is not supported by the rewriter", rw.fset.Position(cc.Pos()))
		}
		if recv == nil || recv.Op != token.ARROW {
			die("unsupported select case at %s", rw.fset.Position(cc.Pos()))
		}
		if !pure(recv.X) {
			die("select case channel operand at %s is not a plain identifier/selector chain", rw.fset.Position(cc.Pos()))
		}
		chans = append(chans, recv.X)
		var pre []ast.Stmt
		if len(lhs) > 0 {
			et := rw.typeOf(recv.X).Underlying().(*types.Chan).Elem()
			tText := types.TypeString(et, rw.qualifier)
			texpr, err := parser.ParseExpr(tText)
			if err != nil {
				die("cannot print element type %s", tText)
			}
			val := &ast.CallExpr{Fun: &ast.IndexExpr{X: &ast.SelectorExpr{X: ast.NewIdent("vsched"), Sel: ast.NewIdent("As")}, Index: texpr}, Args: []ast.Expr{ast.NewIdent(vN)}}
			rhs := []ast.Expr{val}
			if len(lhs) == 2 {
				rhs = append(rhs, ast.NewIdent(okN))
			}
			pre = append(pre, &ast.AssignStmt{Lhs: lhs, Tok: tok, Rhs: rhs})
			if tok == token.DEFINE {
				// silence "declared and not used" for variables the original body did not use
				var blanks, names []ast.Expr
				for _, l := range lhs {
					if id, ok := l.(*ast.Ident); ok && id.Name != "_" {
						blanks = append(blanks, ast.NewIdent("_"))
						names = append(names, ast.NewIdent(id.Name))
					}
				}
				if len(names) > 0 {
					pre = append(pre, &ast.AssignStmt{Lhs: blanks, Tok: token.ASSIGN, Rhs: names})
				}
			}
		}
		sw.Body.List = append(sw.Body.List, &ast.CaseClause{List: []ast.Expr{&ast.BasicLit{Kind: token.INT, Value: fmt.Sprint(idx)}}, Body: append(pre, body...)})
		idx++
	}
	def := "false"
	if hasDefault {
		def = "true"
	}
	args := append([]ast.Expr{ast.NewIdent(def)}, chans...)
	sw.Init = &ast.AssignStmt{Lhs: []ast.Expr{ast.NewIdent(iN), ast.NewIdent(vN), ast.NewIdent(okN)}, Tok: token.DEFINE, Rhs: []ast.Expr{vcall("Select", args...)}}
	// use the temporaries so that they never count as unused
	use := &ast.AssignStmt{Lhs: []ast.Expr{ast.NewIdent("_"), ast.NewIdent("_")}, Tok: token.ASSIGN, Rhs: []ast.Expr{ast.NewIdent(vN), ast.NewIdent(okN)}}
	for _, c := range sw.Body.List {
		cl := c.(*ast.CaseClause)
		cl.Body = append([]ast.Stmt{use}, cl.Body...)
	}
	return sw
}

// leftovers reports synchronisation constructs that survived the rewrite.
func (rw *rewriter) leftovers(f *ast.File) string {
	msg := ""
	ast.Inspect(f, func(n ast.Node) bool {
		switch x := n.(type) {
		case *ast.SendStmt:
			msg = "native channel send left at " + rw.fset.Position(x.Pos()).String()
		case *ast.SelectStmt:
			msg = "native select left at " + rw.fset.Position(x.Pos()).String()
		case *ast.GoStmt:
			msg = "native go statement left at " + rw.fset.Position(x.Pos()).String()
		case *ast.UnaryExpr:
			if x.Op == token.ARROW {
				msg = "native channel receive left at " + rw.fset.Position(x.Pos()).String()
			}
		case *ast.SelectorExpr:
			if id, ok := x.X.(*ast.Ident); ok {
				if pn, ok := rw.info.Uses[id].(*types.PkgName); ok {
					p := pn.Imported().Path()
					if p == "sync/atomic" || p == "os/signal" {
						msg = "use of " + p + " is not supported by the rewriter"
					}
					if p == "time" {
						switch x.Sel.Name {
						case "Sleep", "AfterFunc", "Tick", "NewTicker":
							msg = "time." + x.Sel.Name + " is not supported by the rewriter (" + rw.fset.Position(x.Pos()).String() + ")"
						}
					}
					if p == "sync" {
						switch x.Sel.Name {
						case "WaitGroup", "Pool", "Mutex", "RWMutex", "Locker":
						default:
							msg = "sync." + x.Sel.Name + " is not supported by the rewriter (" + rw.fset.Position(x.Pos()).String() + ")"
						}
					}
					if p == "runtime" && x.Sel.Name == "Gosched" {
						msg = "runtime.Gosched is not supported by the rewriter"
					}
				}
			}
			if t := rw.typeOf(x.X); t != nil {
				if is, _ := namedIs(t, "sync", "WaitGroup"); is {
					msg = "sync.WaitGroup method " + x.Sel.Name + " left native at " + rw.fset.Position(x.Pos()).String()
				}
				if is, _ := namedIs(t, "sync", "Pool"); is && (x.Sel.Name == "Get" || x.Sel.Name == "Put") {
					msg = "sync.Pool method left native at " + rw.fset.Position(x.Pos()).String()
				}
				for _, mt := range []string{"Mutex", "RWMutex"} {
					if is, _ := namedIs(t, "sync", mt); is {
						msg = "sync." + mt + " method " + x.Sel.Name + " left native at " + rw.fset.Position(x.Pos()).String()
					}
				}
				if is, _ := namedIs(t, "time", "Timer"); is && x.Sel.Name != "C" {
					msg = "time.Timer method " + x.Sel.Name + " is not supported by the rewriter (" + rw.fset.Position(x.Pos()).String() + ")"
				}
			}
		}
		return msg == ""
	})
	return msg
}
