package universe

import (
	"github.com/paulsonkoly/chess-3/board"
	"github.com/paulsonkoly/chess-3/move"

	"verif/refchess"
)

// Walker performs a depth-first walk of the legal-move tree below a root,
// playing every move on the real engine board (MakeMove/UndoMove) in
// lock-step with the reference model.
type Walker struct {
	B    *board.Board
	Path []refchess.Move
	// Visit is called at every node (root included) with the engine board as
	// reached by play and the reference position reached by the same moves
	// (en-passant target FIDE-style). Returning false prunes the subtree.
	Visit func(w *Walker, p *refchess.Pos, depthLeft int) bool
	// Nodes counts visited nodes.
	Nodes int64
}

// Walk explores to the given depth (0 = root only).
func (w *Walker) Walk(root *refchess.Pos, b *board.Board, depth int) {
	w.B = b
	w.Path = w.Path[:0]
	w.walk(root, depth)
}

func (w *Walker) walk(p *refchess.Pos, depth int) {
	w.Nodes++
	if !w.Visit(w, p, depth) || depth == 0 {
		return
	}
	var buf [256]refchess.Move
	for _, m := range p.LegalMoves(buf[:0]) {
		child := p.Make(m)
		em := move.Move(m.Enc())
		r := w.B.MakeMove(em)
		w.Path = append(w.Path, m)
		w.walk(&child, depth-1)
		w.Path = w.Path[:len(w.Path)-1]
		w.B.UndoMove(em, r)
	}
}

// PathStrings renders the current path.
func (w *Walker) PathStrings() []string {
	out := make([]string, len(w.Path))
	for i, m := range w.Path {
		out[i] = m.String()
	}
	return out
}
