package checks

import (
	"encoding/json"
	"fmt"
	"strings"
	"sync/atomic"

	"github.com/paulsonkoly/chess-3/board"
	"github.com/paulsonkoly/chess-3/move"
	"github.com/paulsonkoly/chess-3/tools/tuner/epd"

	"verif/eng"
	"verif/ev"
	"verif/refchess"
	"verif/universe"
)

// C11 — FEN parsing and printing are inverse and robust.

type c11Case struct {
	Kind  string   `json:"kind"` // "roundtrip", "robust", "uci-accept", "uci-reject", "played"
	Text  string   `json:"text"`
	Prev  string   `json:"prev,omitempty"`  // for ParseFEN into a re-used board: the FEN parsed before
	Moves []string `json:"moves,omitempty"` // for positions reached by play
}

// c11RoundTrip: canonical text -> FromFEN -> fields as the text says -> FEN() == text.
// Also through ParseFEN into a re-used board that held prev before.
func c11RoundTrip(text string, want *refchess.Pos, reused *board.Board) string {
	b, err := board.FromFEN(text)
	if err != nil {
		return "FromFEN rejects a canonical FEN: " + err.Error()
	}
	if got := eng.PosOf(b); got != *want {
		return fmt.Sprintf("parsed position differs from the text: %s", got.FEN())
	}
	if out := b.FEN(); out != text {
		return fmt.Sprintf("prints back as %q", out)
	}
	if reused != nil {
		if err := board.ParseFEN(reused, []byte(text)); err != nil {
			return "ParseFEN (re-used board) rejects a canonical FEN: " + err.Error()
		}
		if got := eng.PosOf(reused); got != *want {
			return fmt.Sprintf("ParseFEN into a re-used board gives %s", got.FEN())
		}
	}
	return ""
}

// c11Robust parses arbitrary bytes through every entry point; it returns a
// description if anything panics or breaks the (board,nil) xor (nil,err) contract.
func c11Robust(text string, scratch *board.Board) (accepted bool, msg string) {
	var b *board.Board
	var err error
	if p, st := ev.Catch(func() { b, err = board.FromFEN(text) }); p != nil {
		return false, fmt.Sprintf("FromFEN panics: %v\n%s", p, firstLines(st, 12))
	}
	if (b == nil) == (err == nil) {
		return false, fmt.Sprintf("FromFEN returned (%v, %v)", b, err)
	}
	var err2 error
	if p, st := ev.Catch(func() { err2 = board.ParseFEN(scratch, []byte(text)) }); p != nil {
		return false, fmt.Sprintf("ParseFEN panics: %v\n%s", p, firstLines(st, 12))
	}
	if (err2 == nil) != (err == nil) {
		return false, fmt.Sprintf("FromFEN err=%v but ParseFEN err=%v", err, err2)
	}
	var res float64
	if p, st := ev.Catch(func() { _ = epd.Parse([]byte(text+"; 0.5"), scratch, &res) }); p != nil {
		return false, fmt.Sprintf("epd.Parse panics: %v\n%s", p, firstLines(st, 12))
	}
	if p, _ := ev.Catch(func() { _ = epd.Parse([]byte(text), scratch, &res) }); p != nil {
		return false, fmt.Sprintf("epd.Parse (no result suffix) panics: %v", p)
	}
	if b != nil {
		// an accepted board must be usable: printing and the piece-count gate must not panic
		if p, st := ev.Catch(func() { _ = b.FEN(); _ = b.InvalidPieceCount() }); p != nil {
			return true, fmt.Sprintf("accepted board panics in FEN()/InvalidPieceCount: %v\n%s", p, firstLines(st, 12))
		}
	}
	return b != nil, ""
}

func firstLines(s string, n int) string {
	ls := strings.Split(s, "\n")
	if len(ls) > n {
		ls = ls[:n]
	}
	return strings.Join(ls, "\n")
}

func c11Replay(class string, raw json.RawMessage) (bool, string) {
	var c c11Case
	if err := json.Unmarshal(raw, &c); err != nil {
		return false, err.Error()
	}
	switch c.Kind {
	case "roundtrip":
		p, err := refchess.ParseFEN(c.Text)
		if err != nil {
			return false, err.Error()
		}
		var reused *board.Board
		if c.Prev != "" {
			reused = &board.Board{}
			_ = board.ParseFEN(reused, []byte(c.Prev))
		}
		if msg := c11RoundTrip(c.Text, &p, reused); msg != "" {
			return true, c.Text + ": " + msg
		}
		return false, "round trip ok"
	case "played":
		p := refchess.MustFEN(c.Text)
		b := eng.Load(&p)
		for _, s := range c.Moves {
			var buf [256]refchess.Move
			for _, m := range p.LegalMoves(buf[:0]) {
				if m.String() == s {
					b.MakeMove(move.Move(m.Enc()))
					p = p.Make(m)
					break
				}
			}
		}
		if _, err := board.FromFEN(b.FEN()); err != nil {
			return true, fmt.Sprintf("engine rejects the FEN it printed for a position reached by play: %q: %v", b.FEN(), err)
		}
		return false, "reload ok"
	case "robust":
		var scratch board.Board
		if _, msg := c11Robust(c.Text, &scratch); msg != "" {
			return true, msg
		}
		return false, "no panic, contract kept"
	case "uci-accept", "uci-reject":
		prev := "4k3/8/8/8/8/8/8/4K2R w K - 3 9"
		out, _ := runDriver("position fen "+prev+"\nposition fen "+c.Text+"\nfen\n", nullSearch{})
		got := strings.TrimSpace(out)
		if c.Kind == "uci-accept" && got != c.Text {
			return true, fmt.Sprintf("position fen %s: driver now holds %q", c.Text, got)
		}
		if c.Kind == "uci-reject" && got != prev {
			return true, fmt.Sprintf("rejected position replaced the board: %q", got)
		}
		return false, "driver behaves"
	}
	return false, "unknown kind"
}

func init() {
	register(&Check{ID: "C11", Level: "model_checking", Run: runC11, Replay: c11Replay})
}

func runC11(r *ev.Run) {
	var texts, positions, robust, accepted, uciCmds atomic.Int64

	// (a)+(b) round trip over positions / canonical texts ---------------------
	type worker struct {
		reused board.Board
		prev   string
		buf    []byte
	}
	rt := func(w *worker, p *refchess.Pos) {
		positions.Add(1)
		texts.Add(1)
		w.buf = p.AppendFEN(w.buf[:0])
		text := string(w.buf)
		if msg := c11RoundTrip(text, p, &w.reused); msg != "" {
			r.Fail("roundtrip", c11Case{Kind: "roundtrip", Text: text, Prev: w.prev}, "%s (previous FEN in the re-used board: %s): %s", text, w.prev, msg)
		}
		w.prev = text
	}
	classes := universe.ThreeMan()
	classes = append(classes, parseClasses(seedFour(r, 1, 0, 6))...)
	r.Set("classes", classNames(classes))
	counters := [][2]int{{0, 1}, {1, 2}, {7, 9}, {50, 10}, {99, 99}, {100, 100}, {13, 999}, {0, 1000}, {42, 9999}, {5, 123456}}
	var cc atomic.Int64
	forClasses(r, classes, universe.Opts{}, func() *worker { return &worker{} }, func(w *worker, p *refchess.Pos) {
		q := *p
		c := counters[cc.Add(1)%int64(len(counters))]
		if q.Ep < 0 {
			q.Half = c[0] // a position with an en-passant target has clock 0
		}
		q.Full = c[1]
		rt(w, &q)
	})
	// tree nodes: positions reached by play, printed by the ENGINE, reloaded
	roots := universe.AllRoots()
	var playedOver100 atomic.Int64
	ev.Parallel(len(roots), func(wk, item int) {
		root := roots[item]
		w := &universe.Walker{}
		var ww worker
		w.Visit = func(w *universe.Walker, p *refchess.Pos, left int) bool {
			n := p.Normalized()
			fen := w.B.FEN()
			positions.Add(1)
			if _, err := board.FromFEN(fen); err != nil {
				cls := "played/own-fen-rejected"
				if n.Half > 100 {
					cls = "played/halfmove-clock-above-100-rejected"
					playedOver100.Add(1)
				}
				r.Fail(cls, c11Case{Kind: "played", Text: root.FEN, Moves: w.PathStrings()}, "%s + %v: engine prints %q and rejects it: %v", root.FEN, w.PathStrings(), fen, err)
			} else {
				rt(&ww, &n)
			}
			return !r.Expired()
		}
		w.Walk(&root.Pos, eng.Load(&root.Pos), ev.Pick(r, 2, 3))
	})

	// (c) material family through InvalidPieceCount and `position fen`/`fen` ----
	mat := c11Material(r, &uciCmds)
	r.Set("material_vectors", mat)

	// (d) robustness: enumerated, not fuzzed ------------------------------------
	c11Robustness(r, &robust, &accepted, &uciCmds)

	r.Sample(map[string]any{"kind": "roundtrip", "text": "8/8/8/8/8/8/6P1/K2k4 w - - 7 9"})
	r.States.Store(positions.Load())
	r.Transitions.Store(texts.Load() + robust.Load())
	r.Validated.Store(texts.Load())
	r.Evals.Store(texts.Load() + robust.Load() + uciCmds.Load())
	r.Nontrivial.Store(accepted.Load() + texts.Load())
	r.Set("distinct_outcomes", map[string]int64{"roundtrip_texts": texts.Load(), "robustness_strings": robust.Load(), "robustness_strings_accepted": accepted.Load(), "uci_position_commands": uciCmds.Load(), "played_positions_with_clock_above_100": playedOver100.Load()})
	r.Set("rule", "(a,b) every position of the listed classes with rotating counter pairs, printed by the reference printer, parsed by FromFEN and by ParseFEN into a re-used board, compared field by field with the text and printed back; tree nodes printed by the engine and reloaded; (c) every per-colour piece-count vector reachable by promotion (one-sided complete, two-sided on the extreme set) through InvalidPieceCount and through `position fen`/`fen`; (d) all strings up to length 5 over a 12-symbol FEN alphabet and over the 11-symbol alphabet of the tuner's records (digits, point, semicolon, blank, quote, CR, LF), base FENs with CR/LF-terminated result suffixes, and for 12 base FENs every single-byte substitution (256 values), deletion, insertion (16 bytes), truncation, field-count variant and digit runs up to 25 in both counters, through FromFEN, ParseFEN, epd.Parse and `position fen` (board must stay unchanged when rejected); non-trivial = texts that parse")
}

// c11Material enumerates piece-count vectors.
func c11Material(r *ev.Run, uciCmds *atomic.Int64) int {
	type vec struct{ p, n, b, rk, q int }
	var vecs, extreme []vec
	for p := 0; p <= 8; p++ {
		for n := 0; n <= 10; n++ {
			for b := 0; b <= 10; b++ {
				for rk := 0; rk <= 10; rk++ {
					for q := 0; q <= 9; q++ {
						promo := max(0, n-2) + max(0, b-2) + max(0, rk-2) + max(0, q-1)
						if p+promo <= 8 {
							v := vec{p, n, b, rk, q}
							vecs = append(vecs, v)
							if p+promo == 8 && (promo == 0 || promo >= 2) && (n == 2 || b == 2 || n == 0) {
								extreme = append(extreme, v)
							}
						}
					}
				}
			}
		}
	}
	// build a valid position for a pair of vectors
	build := func(w, bl vec) (refchess.Pos, bool) {
		var p refchess.Pos
		p.Ep = -1
		p.Full = 1
		p.Sq[0] = refchess.King   // a1
		p.Sq[63] = -refchess.King // h8
		place := func(v vec, white bool) bool {
			// pawns on the own 2nd/3rd rank, pieces on the 1st, 3rd (rest), 4th
			var pawnSq, pieceSq []int
			if white {
				for s := 8; s < 24; s++ {
					pawnSq = append(pawnSq, s)
				}
				for s := 1; s < 8; s++ {
					pieceSq = append(pieceSq, s)
				}
				for s := 24; s < 40; s++ {
					pieceSq = append(pieceSq, s)
				}
			} else {
				for s := 55; s >= 40; s-- {
					pawnSq = append(pawnSq, s)
				}
				for s := 62; s >= 56; s-- {
					pieceSq = append(pieceSq, s)
				}
				for s := 39; s >= 24; s-- {
					pieceSq = append(pieceSq, s)
				}
			}
			sign := int8(1)
			if !white {
				sign = -1
			}
			pi := 0
			for i := 0; i < v.p; i++ {
				for pi < len(pawnSq) && p.Sq[pawnSq[pi]] != 0 {
					pi++
				}
				if pi >= len(pawnSq) {
					return false
				}
				p.Sq[pawnSq[pi]] = sign * refchess.Pawn
			}
			qi := 0
			for kind, cnt := range map[int8]int{} {
				_, _ = kind, cnt
			}
			for _, kc := range [][2]int{{refchess.Knight, v.n}, {refchess.Bishop, v.b}, {refchess.Rook, v.rk}, {refchess.Queen, v.q}} {
				for i := 0; i < kc[1]; i++ {
					for qi < len(pieceSq) && p.Sq[pieceSq[qi]] != 0 {
						qi++
					}
					if qi >= len(pieceSq) {
						return false
					}
					p.Sq[pieceSq[qi]] = sign * int8(kc[0])
				}
			}
			return true
		}
		if !place(w, true) || !place(bl, false) {
			return p, false
		}
		for stm := int8(0); stm < 2; stm++ {
			p.Stm = stm
			if p.Valid() {
				return p, true
			}
		}
		return p, false
	}
	zero := vec{}
	var jobs [][2]vec
	for _, v := range vecs {
		jobs = append(jobs, [2]vec{v, zero}, [2]vec{zero, v}, [2]vec{v, v})
	}
	for _, a := range extreme {
		for _, b := range extreme {
			jobs = append(jobs, [2]vec{a, b})
		}
	}
	var built, skipped atomic.Int64
	chunk := 400
	ev.Parallel((len(jobs)+chunk-1)/chunk, func(wk, item int) {
		var script strings.Builder
		var want []string
		for _, j := range jobs[item*chunk : min(len(jobs), (item+1)*chunk)] {
			p, ok := build(j[0], j[1])
			if !ok {
				skipped.Add(1)
				continue
			}
			built.Add(1)
			fen := p.FEN()
			b, err := board.FromFEN(fen)
			if err != nil {
				r.Fail("material/rejected-by-parser", c11Case{Kind: "roundtrip", Text: fen}, "%s: %v", fen, err)
				continue
			}
			if b.InvalidPieceCount() {
				r.Fail("material/invalid-piece-count", c11Case{Kind: "uci-accept", Text: fen}, "%s: InvalidPieceCount() rejects a position reachable by promotion", fen)
			}
			fmt.Fprintf(&script, "position fen %s\nfen\nposition startpos\n", fen)
			want = append(want, fen)
		}
		out, _ := runDriver(script.String(), nullSearch{})
		lines := strings.Split(strings.TrimRight(out, "\n"), "\n")
		uciCmds.Add(int64(len(want)))
		for i := range want {
			if i >= len(lines) || lines[i] != want[i] {
				got := ""
				if i < len(lines) {
					got = lines[i]
				}
				r.Fail("material/uci-not-accepted", c11Case{Kind: "uci-accept", Text: want[i]}, "position fen %s: driver holds %q afterwards", want[i], got)
			}
		}
	})
	r.Set("material_positions_built", built.Load())
	r.Set("material_vectors_without_valid_layout", skipped.Load())
	return len(vecs)
}

var c11Bases = []string{
	"rnbqkbnr/pppppppp/8/8/8/8/PPPPPPPP/RNBQKBNR w KQkq - 0 1",
	"r3k2r/p1ppqpb1/bn2pnp1/3PN3/1p2P3/2N2Q1p/PPPBBPPP/R3K2R w KQkq - 0 1",
	"rnbqkbnr/pppp1ppp/8/4p3/4P3/8/PPPP1PPP/RNBQKBNR w KQkq e6 0 2",
	"8/8/8/8/8/8/8/K1k5 b - - 100 9999",
	"4k3/8/8/8/3pP3/8/8/4K3 b - e3 0 1",
	"8/P7/8/8/8/8/7p/K1k5 w - - 12 34",
	"QQQQQQQQ/8/8/8/8/8/8/K1k5 w - - 0 1",
	"k7/8/8/8/8/8/8/7K w - - 0 1",
	"r3k2r/8/8/8/8/8/8/R3K2R b Kq - 3 7",
	"1/1/1/1/1/1/1/Kk w - - 0 1",
	"8/8/8/8/8/8/8/8 w - - 0 1",
	"pppppppp/pppppppp/pppppppp/pppppppp/PPPPPPPP/PPPPPPPP/PPPPPPPP/PPPPPPPK b KQkq h8 99 1",
}

func c11Robustness(r *ev.Run, robust, accepted, uciCmds *atomic.Int64) {
	// the driver part: a rejected position must leave the board unchanged
	prev := "4k3/8/8/8/8/8/8/4K2R w K - 3 9"
	var sampleCtr atomic.Int64
	tryAll := func(texts []string) {
		var scratch board.Board
		var script strings.Builder
		var expect []string
		var sent []string
		for _, t := range texts {
			robust.Add(1)
			ok, msg := c11Robust(t, &scratch)
			if msg != "" {
				r.Fail("robust/"+strings.SplitN(msg, ":", 2)[0], c11Case{Kind: "robust", Text: t}, "%q: %s", t, msg)
				continue
			}
			if ok {
				accepted.Add(1)
				if sampleCtr.Add(1)%5000 == 1 {
					r.Sample(map[string]any{"kind": "robust-accepted", "text": t})
				}
			}
			// through the driver: only texts without line breaks (a line break ends the command)
			if strings.ContainsAny(t, "\n\r") {
				continue
			}
			fs := strings.Fields(t)
			want := prev
			if len(fs) >= 6 {
				if b, err := board.FromFEN(strings.Join(fs[:6], " ")); err == nil {
					bad := false
					if p, _ := ev.Catch(func() { bad = b.InvalidPieceCount() }); p != nil {
						continue
					}
					if !bad {
						want = b.FEN()
					}
				}
			}
			fmt.Fprintf(&script, "position fen %s\nposition fen %s\nfen\n", prev, t)
			expect = append(expect, want)
			sent = append(sent, t)
		}
		out, _ := runDriver(script.String(), nullSearch{})
		lines := strings.Split(strings.TrimRight(out, "\n"), "\n")
		uciCmds.Add(int64(len(expect)))
		for i := range expect {
			got := ""
			if i < len(lines) {
				got = lines[i]
			}
			if got != expect[i] {
				kind, cls := "uci-reject", "uci/rejected-position-replaced-board"
				if expect[i] != prev {
					kind, cls = "uci-accept", "uci/accepted-position-not-installed"
				}
				r.Fail(cls, c11Case{Kind: kind, Text: sent[i]}, "position fen %q: driver holds %q, expected %q", sent[i], got, expect[i])
			}
		}
	}
	// 1. all short strings over a FEN alphabet
	alpha := []byte("kP8/ w-a3 1K")
	_ = alpha
	maxLen := ev.Pick(r, 5, 6)
	var batches [][]string
	var cur []string
	var gen func(prefix []byte)
	gen = func(prefix []byte) {
		cur = append(cur, string(prefix))
		if len(cur) == 2000 {
			batches = append(batches, cur)
			cur = nil
		}
		if len(prefix) == maxLen {
			return
		}
		for _, c := range alpha {
			gen(append(prefix, c))
		}
	}
	gen(nil)
	// 1b. all short strings over the alphabet of the tuner's records (result suffix, separators, line ends left in by
	// files written elsewhere): the record parser strips a fixed-length suffix
	alpha = []byte("1.05; \r\n\"-")
	gen(nil)
	for _, base := range c11Bases {
		for _, suffix := range []string{"; 0.5\r", "; 0.5\r\n", " ; 1.0\n", ";0.0\r\r\n", "\r\n", "\r", "; 1/2-1/2\r\n", " \"1-0\";\r", "; 0.5;\r\n; 0.5"} {
			cur = append(cur, base+suffix, suffix+base, suffix)
		}
	}
	// 2. edits of base FENs
	ins := []byte(" /-k8w0a:Z\x00\xff9Kq1")
	for _, base := range c11Bases {
		for i := 0; i <= len(base); i++ {
			cur = append(cur, base[:i]) // truncation
			for _, c := range ins {
				cur = append(cur, base[:i]+string(c)+base[i:]) // insertion
			}
			if i < len(base) {
				cur = append(cur, base[:i]+base[i+1:]) // deletion
				for c := 0; c < 256; c++ {
					if c == '\n' || c == '\r' {
						continue
					}
					cur = append(cur, base[:i]+string([]byte{byte(c)})+base[i+1:])
				}
			}
		}
		// field-count variants
		fs := strings.Fields(base)
		for n := 0; n <= 6; n++ {
			cur = append(cur, strings.Join(fs[:n], " "), strings.Join(fs[:n], " ")+" ", strings.Join(fs[:n], "  "))
		}
		cur = append(cur, base+" extra", base+" 1 2 3", " "+base, base+" ")
		// digit runs in both counters
		for l := 1; l <= 25; l++ {
			for _, d := range []string{"9", "1", "0"} {
				run := strings.Repeat(d, l)
				cur = append(cur, strings.Join(fs[:4], " ")+" "+run+" 1", strings.Join(fs[:4], " ")+" 0 "+run, strings.Join(fs[:4], " ")+" "+run+" "+run)
			}
		}
		batches = append(batches, cur)
		cur = nil
	}
	if len(cur) > 0 {
		batches = append(batches, cur)
	}
	ev.Parallel(len(batches), func(wk, item int) { tryAll(batches[item]) })
}
