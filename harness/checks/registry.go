// Package checks holds one check per property: alphabet + bound + oracle.
package checks

import (
	"encoding/json"
	"fmt"
	"os"
	"sort"

	"verif/ev"
)

// Check is a registered property check.
type Check struct {
	ID    string
	Level string
	Run   func(r *ev.Run)
	// Replay re-executes one recorded case without the explorer and returns
	// whether the violation reproduces, and a message.
	Replay func(class string, c json.RawMessage) (bool, string)
}

var registry = map[string]*Check{}

func register(c *Check) { registry[c.ID] = c }

// IDs lists registered checks.
func IDs() []string {
	var out []string
	for k := range registry {
		out = append(out, k)
	}
	sort.Strings(out)
	return out
}

// Main runs check id at the given tier (or a replay).
func Main(id, tier, replay string) {
	c := registry[id]
	if c == nil {
		fmt.Fprintf(os.Stderr, "unknown check %q; have %v\n", id, IDs())
		os.Exit(2)
	}
	if replay != "" {
		data, err := os.ReadFile(replay)
		if err != nil {
			fmt.Fprintln(os.Stderr, err)
			os.Exit(2)
		}
		var doc struct {
			Class string          `json:"class"`
			Case  json.RawMessage `json:"case"`
		}
		if err := json.Unmarshal(data, &doc); err != nil {
			fmt.Fprintln(os.Stderr, err)
			os.Exit(2)
		}
		if c.Replay == nil {
			fmt.Fprintf(os.Stderr, "check %s has no replay function\n", id)
			os.Exit(2)
		}
		bad, msg := c.Replay(doc.Class, doc.Case)
		if bad {
			fmt.Printf("replay reproduces: %s\nVIOLATION property=%s replay=%s\n", msg, id, replay)
			os.Exit(1)
		}
		fmt.Printf("replay does not reproduce (property holds on this case): %s\n", msg)
		os.Exit(0)
	}
	r := ev.New(id, tier, c.Level)
	c.Run(r)
	r.Finish()
}
