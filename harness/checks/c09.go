package checks

import (
	"encoding/json"
	"fmt"
	"sync/atomic"

	"github.com/paulsonkoly/chess-3/board"

	"verif/eng"
	"verif/ev"
	"verif/refchess"
	"verif/universe"
)

// C09 — IsCheckmate / IsStalemate agree with the absence of legal moves.

type c09Case struct {
	FEN string `json:"fen"`
}

// c09Judge calls the function whose precondition holds and compares.
func c09Judge(b *board.Board, p *refchess.Pos) (string, string) {
	has := p.HasLegalMove()
	if p.InCheck(int(p.Stm)) {
		if got := b.IsCheckmate(); got != !has {
			return "checkmate", fmt.Sprintf("in check, legal move exists=%v, IsCheckmate()=%v", has, got)
		}
	} else {
		if got := b.IsStalemate(); got != !has {
			return "stalemate", fmt.Sprintf("not in check, legal move exists=%v, IsStalemate()=%v", has, got)
		}
	}
	return "", ""
}

func c09Replay(class string, raw json.RawMessage) (bool, string) {
	var c c09Case
	if err := json.Unmarshal(raw, &c); err != nil {
		return false, err.Error()
	}
	p := refchess.MustFEN(c.FEN)
	n := p.Normalized()
	b := eng.Load(&n)
	if cls, msg := c09Judge(b, &n); cls != "" {
		return true, c.FEN + ": " + msg
	}
	return false, "fast tests agree with the legal-move count"
}

func init() {
	register(&Check{ID: "C09", Level: "model_checking", Run: runC09, Replay: c09Replay})
}

func runC09(r *ev.Run) {
	var positions, inCheck, mates, stalemates, epPositions atomic.Int64
	handle := func(b *board.Board, p *refchess.Pos) {
		positions.Add(1)
		chk := p.InCheck(int(p.Stm))
		cls, msg := c09Judge(b, p)
		if chk {
			inCheck.Add(1)
		}
		if cls != "" {
			r.Fail("wrong-"+cls+fmt.Sprintf("/%v", !p.HasLegalMove()), c09Case{FEN: p.FEN()}, "%s: %s", p.FEN(), msg)
			return
		}
		if !p.HasLegalMove() {
			if chk {
				mates.Add(1)
			} else {
				stalemates.Add(1)
			}
		}
	}

	classes := universe.ThreeMan()
	classes = append(classes, parseClasses(seedFour(r, 0, 2, 16))...)
	r.Set("classes", classNames(classes))
	type worker struct{ ld eng.Loader }
	var sc atomic.Int64
	forClasses(r, classes, universe.Opts{}, func() *worker { return &worker{} }, func(w *worker, p *refchess.Pos) {
		// engine-normalised en-passant state, as the statement requires
		q := p
		if p.Ep >= 0 {
			epPositions.Add(1)
			if !p.EPCapturable() {
				return // the normalised twin (no target) is enumerated separately
			}
		}
		handle(w.ld.Load(q), q)
		if sc.Add(1)%3000000 == 1 {
			r.Sample(map[string]any{"universe": "U1", "fen": q.FEN()})
		}
	})

	// constrained 5-man classes: the lone defending king confined to the a1-d1-d4
	// triangle would lose geometry with pawns, so instead the attacker's king is
	// confined to 4 squares; every other man anywhere.
	five := ev.Pick(r, []string{}, []string{"KRkbn", "KQkrp", "KPkrp", "KNkqr", "KBPkp", "KRPkr"})
	for _, name := range five {
		c := universe.ParseClass(name)
		var jobs []int
		for _, wk := range []int{0, 9, 18, 27} { // a1 b2 c3 d4
			jobs = append(jobs, wk)
		}
		ws := make([]worker, len(jobs))
		ev.Parallel(len(jobs), func(wi, item int) {
			if r.Expired() {
				return
			}
			universe.EnumShard(c, universe.Opts{Shard: jobs[item], NoRights: true}, func(p *refchess.Pos) {
				if r.Expired() {
					return
				}
				if p.Ep >= 0 && !p.EPCapturable() {
					return
				}
				handle(ws[item].ld.Load(p), p)
			})
		})
	}
	r.Set("five_man_constrained", five)

	// constrained classes with the defending king confined to the corner region: boxed-in kings whose
	// only moves (if any) are pawn moves and captures: the stalemate case analysis
	cornerish := []int{56, 57, 48, 63, 62, 55} // a8 b8 a7 h8 g8 h7
	stale := ev.Pick(r, []string{"KPPkp", "KNPkp"}, []string{"KPPkp", "KNPkp", "KPkpp", "KBPkp", "KRPkp", "KPPkn", "KNPkpp"})
	var staleN atomic.Int64
	for _, name := range stale {
		c := universe.ParseClass(name)
		ws := make([]worker, 64)
		ev.Parallel(64, func(wi, item int) {
			if r.Expired() {
				return
			}
			universe.EnumShard(c, universe.Opts{Shard: item, NoRights: true, NoEP: true, BlackKingIn: ev.Pick(r, []int{56, 63}, cornerish), OnlyStm: 2}, func(p *refchess.Pos) {
				staleN.Add(1)
				handle(ws[item].ld.Load(p), p)
				// and the colour-flipped twin (White's pawn directions and masks)
				m := p.Mirror()
				handle(ws[item].ld.Load(&m), &m)
			})
		})
	}
	// every 4-man class with the defending king confined to the same region (both colours by mirroring)
	cornerFour := ev.Pick(r, append([]string{"KRkb", "KQkb", "KRkn"}, seedPick([]string{"KQkr", "KRkr", "KBkn", "KQkn", "Kkrr", "Kkbn", "Kkbp", "Kknp", "KPkb", "KQkq", "KPkn", "KPkr"}, r.Seed, 4)...), fourMan)
	for _, name := range cornerFour {
		c := universe.ParseClass(name)
		ws := make([]worker, 64)
		ev.Parallel(64, func(wi, item int) {
			if r.Expired() {
				return
			}
			universe.EnumShard(c, universe.Opts{Shard: item, NoRights: true, NoEP: true, BlackKingIn: cornerish, OnlyStm: 2}, func(p *refchess.Pos) {
				staleN.Add(1)
				handle(ws[item].ld.Load(p), p)
				m := p.Mirror()
				handle(ws[item].ld.Load(&m), &m)
			})
		})
	}
	r.Set("constrained_corner_classes", stale)
	r.Set("constrained_corner_positions", staleN.Load()*2)

	// check-evasion family: a king caged by its own men with one open diagonal, a checking bishop/queen
	// anywhere on it, one own pawn anywhere, optionally one more own piece: captures of the checker and
	// interpositions by pieces, single and double pawn pushes are the only possible replies
	r.Set("check_evasion_family", c09EvasionFamily(r, handle))

	// stalemate cage family: a king with no move of its own, one pawn beside a pawn that has just double-pushed,
	// one enemy slider anywhere, the enemy king anywhere: the pawn's moves (push, capture, en passant) decide
	r.Set("stalemate_cage_family", c09StaleCageFamily(r, handle))
	// paralysis family: the same immobile king, one own man of any kind anywhere, one enemy man of any kind anywhere,
	// the enemy king anywhere: whether the position is stalemate depends on that one man being pinned, blocked or free
	r.Set("paralysis_family", c09ParalysisFamily(r, handle))
	// the en-passant bearing positions of KPkp (a checking pawn captured en passant, pinned capturers)
	forClasses(r, parseClasses([]string{"KPkp", "KPPk", "Kkpp"}), universe.Opts{OnlySpecial: true, NoRights: true}, func() *worker { return &worker{} }, func(w *worker, p *refchess.Pos) {
		if p.Ep >= 0 && p.EPCapturable() {
			handle(w.ld.Load(p), p)
		}
	})
	// corner interposition family: a cornered king checked along the edge file, own men on the neighbouring
	// squares (possibly pinned along the long diagonal), one more own piece anywhere: captures and interpositions
	r.Set("corner_interposition_family", c09CornerFamily(r, handle))

	// U2: dense positions (pins, double checks, blocks by double push) by play
	roots := universe.AllRoots()
	depth := ev.Pick(r, 2, 3)
	var n2 atomic.Int64
	ev.Parallel(len(roots), func(worker, item int) {
		if r.Expired() {
			return
		}
		root := roots[item]
		w := &universe.Walker{}
		w.Visit = func(w *universe.Walker, p *refchess.Pos, left int) bool {
			n2.Add(1)
			n := p.Normalized()
			// the board as reached by play is engine-normalised already
			handle(w.B, &n)
			if n2.Load()%100000 == 1 {
				r.Sample(map[string]any{"universe": "U2", "root": root.FEN, "moves": w.PathStrings()})
			}
			return !r.Expired()
		}
		w.Walk(&root.Pos, eng.Load(&root.Pos), depth)
	})
	r.Set("u2_nodes", n2.Load())
	r.Set("u2_depth", depth)

	r.States.Store(positions.Load())
	r.Transitions.Store(positions.Load())
	r.Validated.Store(positions.Load())
	r.Evals.Store(positions.Load())
	r.Nontrivial.Store(inCheck.Load() + stalemates.Load())
	r.Set("distinct_outcomes", map[string]int64{"in_check": inCheck.Load(), "checkmates": mates.Load(), "stalemates": stalemates.Load(), "positions_with_ep_target": epPositions.Load()})
	r.Set("rule", "every valid position of the listed material classes with engine-normalised en-passant state (target kept only if a legal capture exists), 4- and 5-man classes with the defending king confined to the corner region (both colours), the constructed families (check-evasion cages with batteries, corner interposition with pinned interposers, stalemate cage with a pawn beside a just-pushed pawn, paralysis of one man beside an immobile king, en-passant bearing pawn classes), and every node of the trees below the root corpus; IsCheckmate is called only in check, IsStalemate only out of check; oracle: answer == (reference has no legal move); non-trivial = positions in check + stalemates")
}

// c09EvasionFamily enumerates, for each cage, the checker on every square of the open line, an own pawn on
// every square, the enemy king on every square and optionally one more own piece on every square; both colours.
func c09EvasionFamily(r *ev.Run, handle func(b *board.Board, p *refchess.Pos)) int64 {
	type cage struct {
		king  int
		fixed map[int]int8
		line  []int // the open line, from the king outwards
	}
	cages := []cage{
		// Kg1 Bf1 Bh1 Pg2 Ph2, open diagonal f2-a7
		{6, map[int]int8{5: 3, 7: 3, 14: 1, 15: 1}, []int{13, 20, 27, 34, 41, 48}},
		// Kh8 Bg8 Ph7, open diagonal g7-a1
		{63, map[int]int8{62: 3, 55: 1}, []int{54, 45, 36, 27, 18, 9, 0}},
		// Kh4 Pg5? a king on the edge caged by Rh5 Rh3 Pg3 with g5 covered later by the enemy king: open rank g4-a4
		{31, map[int]int8{39: 4, 23: 4, 22: 1, 38: 1}, []int{30, 29, 28, 27, 26, 25, 24}},
	}
	var n atomic.Int64
	extras := ev.Pick(r, []int8{0, 2}, []int8{0, 2, 4, 5})
	type job struct {
		c    cage
		pawn int
	}
	var jobs []job
	for _, c := range cages {
		for pawn := 8; pawn < 56; pawn++ {
			jobs = append(jobs, job{c, pawn})
		}
	}
	ev.Parallel(len(jobs), func(wk, item int) {
		if r.Expired() {
			return
		}
		j := jobs[item]
		var ld eng.Loader
		var p refchess.Pos
		p.Ep = -1
		p.Full = 1
		p.Sq[j.c.king] = refchess.King
		for sq, mn := range j.c.fixed {
			p.Sq[sq] = mn
		}
		if p.Sq[j.pawn] != 0 {
			return
		}
		p.Sq[j.pawn] = refchess.Pawn
		try := func() {
			if !p.Valid() || !p.InCheck(refchess.White) {
				return
			}
			n.Add(1)
			handle(ld.Load(&p), &p)
			m := p.Mirror()
			handle(ld.Load(&m), &m)
		}
		for li, csq := range j.c.line {
			if p.Sq[csq] != 0 {
				break
			}
			for _, ck := range []int8{-3, -5, -4, -13, -15, -14} {
				// values below -10: the same checker backed by a second slider directly behind it (a battery)
				backer := 0
				if ck < -10 {
					if li+1 >= len(j.c.line) || p.Sq[j.c.line[li+1]] != 0 {
						continue
					}
					backer = j.c.line[li+1]
					ck += 10
					p.Sq[backer] = -5
				}
				p.Sq[csq] = ck
				for bk := 0; bk < 64; bk++ {
					if p.Sq[bk] != 0 {
						continue
					}
					p.Sq[bk] = -refchess.King
					for _, x := range extras {
						if x == 0 {
							try()
							continue
						}
						for s := 0; s < 64; s++ {
							if p.Sq[s] != 0 {
								continue
							}
							p.Sq[s] = x
							try()
							p.Sq[s] = 0
						}
					}
					p.Sq[bk] = 0
				}
				p.Sq[csq] = 0
				if backer != 0 {
					p.Sq[backer] = 0
				}
			}
		}
	})
	return n.Load() * 2
}

// c09StaleCageFamily: Black king h8 with own pawn h7, white pawn h6 (covers g7) and white knight e7 (covers g8):
// the king cannot move. A black pawn on its 4th rank... (from Black's view rank 4 = index 3) stands beside a white
// pawn that has just double-pushed (en-passant target behind it); optionally a blocker in front of the black pawn;
// a white slider and the white king anywhere. Mirrored for White.
func c09StaleCageFamily(r *ev.Run, handle func(b *board.Board, p *refchess.Pos)) int64 {
	var n atomic.Int64
	type job struct{ cf, side int }
	var jobs []job
	for cf := 0; cf < 7; cf++ { // file of the black capturer (the h-file belongs to the cage)
		for _, side := range []int{-1, 1} {
			if cf+side < 0 || cf+side > 6 {
				continue
			}
			jobs = append(jobs, job{cf, side})
		}
	}
	ev.Parallel(len(jobs), func(wk, item int) {
		if r.Expired() {
			return
		}
		j := jobs[item]
		var ld eng.Loader
		var p refchess.Pos
		p.Full = 1
		p.Stm = refchess.Black
		p.Sq[63] = -refchess.King  // h8
		p.Sq[55] = -refchess.Pawn  // h7
		p.Sq[47] = refchess.Pawn   // h6
		p.Sq[52] = refchess.Knight // e7
		capt := 24 + j.cf          // black pawn on rank 4
		pushed := 24 + j.cf + j.side
		p.Sq[capt] = -refchess.Pawn
		p.Sq[pushed] = refchess.Pawn
		p.Ep = int8(pushed - 8)
		front := capt - 8
		try := func() {
			if !p.Valid() || p.InCheck(refchess.Black) {
				return
			}
			n.Add(1)
			q := p.Normalized()
			handle(ld.Load(&q), &q)
			m := q.Mirror()
			handle(ld.Load(&m), &m)
		}
		for wk := 0; wk < 64; wk++ {
			if p.Sq[wk] != 0 || wk == int(p.Ep) || wk == pushed-16 {
				continue
			}
			p.Sq[wk] = refchess.King
			for _, blocker := range []int8{0, refchess.Knight, refchess.Bishop} {
				if blocker != 0 {
					if p.Sq[front] != 0 {
						continue
					}
					p.Sq[front] = blocker
				}
				for _, sl := range []int8{0, refchess.Rook, refchess.Bishop, refchess.Queen} {
					if sl == 0 {
						try()
						continue
					}
					for s := 0; s < 64; s++ {
						if p.Sq[s] != 0 || s == int(p.Ep) || s == pushed-16 {
							continue
						}
						p.Sq[s] = sl
						try()
						p.Sq[s] = 0
					}
				}
				if blocker != 0 {
					p.Sq[front] = 0
				}
			}
			p.Sq[wk] = 0
		}
	})
	return n.Load() * 2
}

// c09CornerFamily: White king a1 checked by a rook/queen on the a-file; b2 holds an own man that may be pinned by a
// bishop/queen on the long diagonal; b1 holds an own man or is covered by a black knight; one more own piece anywhere.
func c09CornerFamily(r *ev.Run, handle func(b *board.Board, p *refchess.Pos)) int64 {
	var n atomic.Int64
	type job struct {
		csq int
		ck  int8
	}
	var jobs []job
	for csq := 16; csq < 64; csq += 8 { // a3..a8
		for _, ck := range []int8{-refchess.Rook, -refchess.Queen} {
			jobs = append(jobs, job{csq, ck})
		}
	}
	extraKinds := ev.Pick(r, []int8{refchess.Rook, refchess.Knight}, []int8{refchess.Rook, refchess.Knight, refchess.Bishop, refchess.Queen})
	bkSquares := ev.Pick(r, []int{63, 62, 47, 39, 31, 23, 60, 5}, nil)
	ev.Parallel(len(jobs), func(wk, item int) {
		if r.Expired() {
			return
		}
		j := jobs[item]
		var ld eng.Loader
		var p refchess.Pos
		p.Ep = -1
		p.Full = 1
		p.Sq[0] = refchess.King
		p.Sq[j.csq] = j.ck
		try := func() {
			if !p.Valid() || !p.InCheck(refchess.White) {
				return
			}
			n.Add(1)
			handle(ld.Load(&p), &p)
			m := p.Mirror()
			handle(ld.Load(&m), &m)
		}
		diag := []int{18, 27, 36, 45, 54, 63}
		for _, b2 := range []int8{refchess.Bishop, refchess.Knight, refchess.Rook, refchess.Queen, refchess.Pawn} {
			p.Sq[9] = b2
			for _, b1 := range []int8{refchess.Bishop, refchess.Knight, refchess.Rook, -100} {
				knightSq := -1
				if b1 == -100 {
					// b1 empty but covered by a black knight on d2
					knightSq = 11
					p.Sq[knightSq] = -refchess.Knight
				} else {
					p.Sq[1] = b1
				}
				for pi := -1; pi < len(diag); pi++ {
					for _, pk := range []int8{-refchess.Bishop, -refchess.Queen} {
						if pi < 0 && pk != -refchess.Bishop {
							continue
						}
						if pi >= 0 {
							if p.Sq[diag[pi]] != 0 {
								continue
							}
							p.Sq[diag[pi]] = pk
						}
						bks := bkSquares
						if bks == nil {
							bks = make([]int, 64)
							for i := range bks {
								bks[i] = i
							}
						}
						for _, bk := range bks {
							if p.Sq[bk] != 0 {
								continue
							}
							p.Sq[bk] = -refchess.King
							try()
							for _, x := range extraKinds {
								for s := 0; s < 64; s++ {
									if p.Sq[s] != 0 {
										continue
									}
									p.Sq[s] = x
									try()
									p.Sq[s] = 0
								}
							}
							p.Sq[bk] = 0
						}
						if pi >= 0 {
							p.Sq[diag[pi]] = 0
						}
					}
				}
				if knightSq >= 0 {
					p.Sq[knightSq] = 0
				} else {
					p.Sq[1] = 0
				}
			}
			p.Sq[9] = 0
		}
	})
	return n.Load() * 2
}

// c09ParalysisFamily: Black king h8, own pawn h7, white pawn h6, white knight e7 (the king cannot move); one black
// man X of any kind on any square, one white man Y of any kind on any square, the white king on any square; Black
// to move and not in check. Mirrored for White.
func c09ParalysisFamily(r *ev.Run, handle func(b *board.Board, p *refchess.Pos)) int64 {
	var n atomic.Int64
	kinds := []int8{refchess.Pawn, refchess.Knight, refchess.Bishop, refchess.Rook, refchess.Queen}
	ev.Parallel(64, func(wk, xs int) {
		if r.Expired() {
			return
		}
		var ld eng.Loader
		var p refchess.Pos
		p.Ep = -1
		p.Full = 1
		p.Stm = refchess.Black
		p.Sq[63] = -refchess.King
		p.Sq[55] = -refchess.Pawn
		p.Sq[47] = refchess.Pawn
		p.Sq[52] = refchess.Knight
		if p.Sq[xs] != 0 {
			return
		}
		for _, x := range kinds {
			if x == refchess.Pawn && (xs < 8 || xs >= 56) {
				continue
			}
			p.Sq[xs] = -x
			for ys := 0; ys < 64; ys++ {
				if p.Sq[ys] != 0 {
					continue
				}
				for _, y := range kinds {
					if y == refchess.Pawn && (ys < 8 || ys >= 56) {
						continue
					}
					p.Sq[ys] = y
					for ks := 0; ks < 64; ks++ {
						if p.Sq[ks] != 0 {
							continue
						}
						p.Sq[ks] = refchess.King
						if p.Valid() && !p.InCheck(refchess.Black) {
							n.Add(1)
							handle(ld.Load(&p), &p)
							m := p.Mirror()
							handle(ld.Load(&m), &m)
						}
						p.Sq[ks] = 0
					}
					p.Sq[ys] = 0
				}
			}
			p.Sq[xs] = 0
		}
	})
	return n.Load() * 2
}
