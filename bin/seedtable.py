#!/usr/bin/env python3
"""Prints the seeded-defect campaign table (DESIGN.md Appendix E) from seeded/*/meta.json and a matrix log."""
import json,glob,os,sys,re
res={}
for log in sys.argv[1:]:
    cur=None
    for l in open(log):
        if l.startswith('== '): cur=l.strip()[3:].strip('/').split('/')[-1]
        elif l.startswith(('DETECTED','MISSED','ERROR','PATCH')) and cur:
            m=re.match(r'(DETECTED|MISSED|ERROR)\s+(C\d+)\s*(?:violation class (\S+))?',l)
            if m: res.setdefault(cur,[]).append((m.group(2),m.group(1),m.group(3) or ''))
print("| seed | property | file | what it breaks (abridged) | needs | reported by (class) |")
print("|---|---|---|---|---|---|")
for d in sorted(glob.glob('/verif/seeded/*/')):
    k=os.path.basename(d.rstrip('/'))
    m=json.load(open(d+'meta.json'))
    files=",".join(os.path.basename(f) for f in m.get('files',[]))[:40]
    br=re.sub(r'\s+',' ',m.get('breaks',''))[:150].replace('|','/')
    nd=re.sub(r'\s+',' ',m.get('needs',''))[:130].replace('|','/')
    rp="; ".join(f"{c} {'**'+cls+'**' if st=='DETECTED' else st}" for c,st,cls in res.get(k,[])) or m.get('detection',{}).get('after_strengthening','?')[:80]
    print(f"| {k} | {m['property']} | {files} | {br} | {nd} | {rp} |")
