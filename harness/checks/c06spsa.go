package checks

import (
	"encoding/json"
	"fmt"
	"os"
	"os/exec"
	"path/filepath"
	"strings"

	"github.com/paulsonkoly/chess-3/params"
	"github.com/paulsonkoly/chess-3/search"

	"verif/ev"
	"verif/universe"
)

// C06 (e): the spsa build with every tunable parameter at its minimum and maximum, all at minimum,
// all at maximum. Executed by a binary built with `-tags "verif spsa"`.

func init() {
	register(&Check{ID: "C06spsa", Level: "fault_enumeration", Run: runC06Spsa})
}

type spsaParam struct {
	Name          string
	Def, Min, Max int
}

func spsaParams() []spsaParam {
	var out []spsaParam
	for _, ln := range strings.Split(params.UCIOptions(), "\n") {
		var p spsaParam
		if n, _ := fmt.Sscanf(ln, "option name %s type spin default %d min %d max %d", &p.Name, &p.Def, &p.Min, &p.Max); n == 4 {
			out = append(out, p)
		}
	}
	return out
}

func runC06Spsa(r *ev.Run) {
	ps := spsaParams()
	type fl struct {
		Setting string  `json:"setting"`
		Case    c06Case `json:"case"`
		Msg     string  `json:"msg"`
	}
	var fails []fl
	if len(ps) == 0 {
		out, _ := json.Marshal(map[string]any{"error": "not an spsa build"})
		fmt.Println(string(out))
		os.Exit(0)
	}
	type setting struct {
		name string
		vals map[string]int
	}
	var settings []setting
	allMin, allMax := map[string]int{}, map[string]int{}
	for _, p := range ps {
		settings = append(settings, setting{p.Name + "=min", map[string]int{p.Name: p.Min}}, setting{p.Name + "=max", map[string]int{p.Name: p.Max}})
		allMin[p.Name], allMax[p.Name] = p.Min, p.Max
	}
	settings = append(settings, setting{"all=min", allMin}, setting{"all=max", allMax})
	roots := c06Roots(r)
	searches := 0
	sub := ev.New("C06", r.Tier, "fault_enumeration") // collects failures without writing evidence
	for _, st := range settings {
		for _, p := range ps {
			params.Set(p.Name, p.Def)
		}
		for k, v := range st.vals {
			if err := params.Set(k, v); err != nil {
				fails = append(fails, fl{st.name, c06Case{}, "params.Set: " + err.Error()})
			}
		}
		rn := &c06Runner{r: sub, s: search.New(32000), tt: 32000}
		for i, root := range roots {
			if i%3 != 0 && !r.Thorough() {
				continue
			}
			for _, d := range []int{2, 4} {
				h, err := newHistory(root.FEN, root.Moves)
				if err != nil {
					continue
				}
				req := root
				req.Depth, req.TT, req.Nodes, req.SoftNodes = d, 32000, -1, -1
				before := sub.FailClasses()
				full := rn.one(h, req, nil)
				searches++
				for _, k := range budgetPoints(full.Nodes, 60) {
					q := req
					q.Nodes = k
					rn.one(h, q, nil)
					searches++
				}
				if sub.FailClasses() != before && len(fails) < 5 {
					fails = append(fails, fl{st.name, c06Case{Req: req}, fmt.Sprintf("with %s: a search of %s at depth %d violates the C06 oracle (see replay files written by the sub-run)", st.name, root.FEN, d)})
				}
			}
		}
	}
	out, _ := json.Marshal(map[string]any{"settings": len(settings), "parameters": len(ps), "searches": searches, "failures": fails})
	fmt.Println(string(out))
	os.Exit(0)
}

// c06SpsaPass runs the spsa binary if bin/check built it.
func c06SpsaPass(r *ev.Run) string {
	bin := filepath.Join(ev.Root, ".build", "verifcheck-spsa")
	if _, err := os.Stat(bin); err != nil {
		return "spsa binary not built"
	}
	cmd := exec.Command(bin, "C06spsa", r.Tier)
	out, err := cmd.Output()
	if err != nil {
		return "spsa sub-run failed: " + err.Error()
	}
	var res struct {
		Settings, Parameters, Searches int
		Error                          string
		Failures                       []struct {
			Setting string  `json:"setting"`
			Case    c06Case `json:"case"`
			Msg     string  `json:"msg"`
		} `json:"failures"`
	}
	lines := strings.Split(strings.TrimSpace(string(out)), "\n")
	if json.Unmarshal([]byte(lines[len(lines)-1]), &res) != nil || res.Error != "" {
		return "spsa sub-run output not understood: " + res.Error
	}
	for _, f := range res.Failures {
		r.Fail("spsa/"+f.Setting, f.Case, "%s", f.Msg)
	}
	return fmt.Sprintf("%d parameter settings (each of %d parameters at min and max, all min, all max), %d searches", res.Settings, res.Parameters, res.Searches)
}

var _ = universe.AllRoots
