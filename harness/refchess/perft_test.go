package refchess

import (
	"bufio"
	"os"
	"strconv"
	"strings"
	"testing"
)

// TestPerftAgainstPublishedNumbers binds the reference model to ground truth
// external to both implementations: the published perft counts shipped in
// /repo/debug/standard.epd.
func TestPerftAgainstPublishedNumbers(t *testing.T) {
	repo := os.Getenv("VERIF_REPO")
	if repo == "" {
		repo = "/repo"
	}
	f, err := os.Open(repo + "/debug/standard.epd")
	if err != nil {
		t.Skip(err)
	}
	defer f.Close()
	sc := bufio.NewScanner(f)
	checked, nodes := 0, 0
	for sc.Scan() {
		parts := strings.Split(sc.Text(), " ;")
		if len(parts) < 2 {
			continue
		}
		p, err := ParseFEN(parts[0])
		if err != nil {
			t.Fatalf("%q: %v", parts[0], err)
		}
		if !p.Valid() {
			t.Errorf("root not valid: %s", parts[0])
		}
		if p.FEN() != parts[0] {
			t.Errorf("fen round trip %q -> %q", parts[0], p.FEN())
		}
		for _, d := range parts[1:] {
			fs := strings.Fields(d)
			depth, _ := strconv.Atoi(fs[0][1:])
			want, _ := strconv.Atoi(fs[1])
			if want > 600000 {
				continue
			}
			got := p.Perft(depth)
			checked++
			nodes += got
			if got != want {
				t.Errorf("%s depth %d: got %d want %d", parts[0], depth, got, want)
			}
		}
	}
	t.Logf("checked %d perft counts, %d leaf nodes", checked, nodes)
}
