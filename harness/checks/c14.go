package checks

import (
	"encoding/json"
	"fmt"
	"sync/atomic"

	. "github.com/paulsonkoly/chess-3/chess"
	"github.com/paulsonkoly/chess-3/uci"

	"verif/ev"
)

// C14 — the time budget granted to a search never exceeds the clock.

type c14Case struct {
	Wtime, Btime, Winc, Binc, Mtime int64
	Stm                             int
}

const c14Margin = 30 // the safety margin named by the property (uci.TimeSafetyMargin)

// c14Judge returns "" or a description. own/inc are the mover's clock.
func c14Judge(c c14Case) (string, string) {
	soft, hard, timed := uci.VerifLimits(c.Wtime, c.Btime, c.Winc, c.Binc, c.Mtime, Color(c.Stm))
	own := c.Wtime
	if c.Stm == 1 {
		own = c.Btime
	}
	if c.Mtime > 0 {
		if !timed {
			return "movetime-not-timed", "movetime given but the search is not time-controlled"
		}
		if soft != c.Mtime || hard != c.Mtime {
			return "movetime", fmt.Sprintf("movetime %d: soft %d hard %d", c.Mtime, soft, hard)
		}
		return "", ""
	}
	if own <= 0 {
		return "", "" // no clock for the mover: not in the property's domain
	}
	if !timed {
		return "not-timed", "a clock is given for the mover but the search is not time-controlled"
	}
	if hard <= 0 {
		return "hard-not-positive", fmt.Sprintf("hard deadline %d is not positive", hard)
	}
	if hard > own {
		return "hard-exceeds-clock", fmt.Sprintf("hard deadline %d exceeds the remaining time %d", hard, own)
	}
	if own > c14Margin && hard > own-c14Margin {
		return "margin-not-kept", fmt.Sprintf("hard deadline %d leaves %d ms of %d (margin %d)", hard, own-hard, own, c14Margin)
	}
	return "", ""
}

func c14Replay(class string, raw json.RawMessage) (bool, string) {
	var c c14Case
	if err := json.Unmarshal(raw, &c); err != nil {
		return false, err.Error()
	}
	if cls, msg := c14Judge(c); cls != "" {
		return true, msg
	}
	if class == "depends-on-opponent" {
		return c14Opponent(c)
	}
	return false, "limits within the clock"
}

// c14Opponent: limits must not depend on the other side's clock/increment.
func c14Opponent(c c14Case) (bool, string) {
	s0, h0, t0 := uci.VerifLimits(c.Wtime, c.Btime, c.Winc, c.Binc, c.Mtime, Color(c.Stm))
	for _, ot := range []int64{0, 1, 29, 31, 1000, 7777777} {
		for _, oi := range []int64{0, 1, 999, 123456} {
			d := c
			if c.Stm == 0 {
				d.Btime, d.Binc = ot, oi
			} else {
				d.Wtime, d.Winc = ot, oi
			}
			s, h, t := uci.VerifLimits(d.Wtime, d.Btime, d.Winc, d.Binc, d.Mtime, Color(d.Stm))
			if s != s0 || h != h0 || t != t0 {
				return true, fmt.Sprintf("%+v: limits (%d,%d,%v) become (%d,%d,%v) when the opponent's clock is %d+%d", c, s0, h0, t0, s, h, t, ot, oi)
			}
		}
	}
	return false, "independent of the opponent's clock"
}

func init() {
	register(&Check{ID: "C14", Level: "model_checking", Run: runC14, Replay: c14Replay})
}

func runC14(r *ev.Run) {
	var evals, clamped, marginCases atomic.Int64
	test := func(c c14Case, opponent bool) {
		evals.Add(1)
		if cls, msg := c14Judge(c); cls != "" {
			r.Fail(cls, c, "%+v: %s", c, msg)
		}
		if opponent {
			if bad, msg := c14Opponent(c); bad {
				r.Fail("depends-on-opponent", c, "%s", msg)
			}
		}
	}
	mk := func(t, inc int64, stm int, mtime int64) c14Case {
		if stm == 0 {
			return c14Case{Wtime: t, Winc: inc, Btime: 4321, Binc: 17, Mtime: mtime, Stm: 0}
		}
		return c14Case{Btime: t, Binc: inc, Wtime: 4321, Winc: 17, Mtime: mtime, Stm: 1}
	}
	// dense grid
	tmax := int64(ev.Pick(r, 2048, 8192))
	imax := int64(ev.Pick(r, 1024, 2048))
	ev.Parallel(int(tmax), func(worker, item int) {
		t := int64(item + 1)
		for inc := int64(0); inc <= imax; inc++ {
			for stm := 0; stm < 2; stm++ {
				test(mk(t, inc, stm, 0), (t+inc)%97 == 0)
				if t <= 64 && inc <= 64 {
					for mt := int64(1); mt <= 64; mt++ {
						test(mk(t, inc, stm, mt), false)
					}
				}
			}
			_, h, _ := uci.VerifLimits(t, 0, inc, 0, 0, White)
			if t > c14Margin {
				marginCases.Add(1)
				if h == t-c14Margin {
					clamped.Add(1)
				}
			}
		}
	})
	// boundary products: powers of 10 and 2, multiples of 30, clamp break points, +-2
	var base []int64
	for v := int64(1); v <= 1_000_000_000_000; v *= 10 {
		base = append(base, v)
	}
	for v := int64(1); v <= 1<<40; v *= 2 {
		base = append(base, v)
	}
	for m := int64(1); m <= 40; m++ {
		base = append(base, 30*m)
	}
	base = append(base, 30, 31, 59, 60, 61, 1_000_000_000, 999_999_999_999)
	var vals []int64
	seen := map[int64]bool{}
	for _, b := range base {
		for d := int64(-2); d <= 2; d++ {
			if v := b + d; v >= 0 && !seen[v] {
				seen[v] = true
				vals = append(vals, v)
			}
		}
	}
	for _, t := range vals {
		if t < 1 || t > 1_000_000_000_000 {
			continue
		}
		for _, inc := range vals {
			if inc > 1_000_000_000 {
				continue
			}
			for stm := 0; stm < 2; stm++ {
				test(mk(t, inc, stm, 0), true)
				// break point 4*soft = t-30: inc around 2*((t-30)/4 - t/30)
				bp := 2 * ((t-30)/4 - t/30)
				for d := int64(-3); d <= 3; d++ {
					if bp+d >= 0 && bp+d <= 1_000_000_000 {
						test(mk(t, bp+d, stm, 0), false)
					}
				}
				for _, mt := range []int64{1, 29, 30, 31, 1000, 1 << 40} {
					test(mk(t, inc, stm, mt), false)
				}
			}
		}
	}
	r.Sample(map[string]any{"wtime": 31, "winc": 0, "stm": "white"})
	r.Sample(map[string]any{"btime": 60, "binc": 2000, "stm": "black"})
	r.Sample(map[string]any{"grid": fmt.Sprintf("t in [1,%d] x inc in [0,%d] x 2 colours; movetime 1..64 for t,inc<=64; %d boundary values squared", tmax, imax, len(vals))})
	r.States.Store(evals.Load())
	r.Transitions.Store(evals.Load())
	r.Validated.Store(evals.Load())
	r.Evals.Store(evals.Load())
	r.Nontrivial.Store(clamped.Load())
	r.Set("distinct_outcomes", map[string]int64{"hard_equals_clock_minus_margin": clamped.Load(), "cases_with_more_than_margin": marginCases.Load()})
	r.Set("rule", "uci.VerifLimits (the driver's own soft/hard computation) over the complete grid remaining time x increment x colour (movetime 1..64 on the small corner), plus all pairs of boundary values (10^k, 2^k, 30m, 30/31/59/60/61, 10^9, 10^12 each +-2) and the clamp break point 4*soft = t-30 +-3; invariance under the opponent's clock on the boundary set and a 1/97 subset of the grid; non-trivial = cases where the upper clamp is active")
	r.Assume("beyond the enumerated grid the claim rests on the formula being piecewise linear between enumerated break points (stated, not proved)")
	r.Assume("limits read through the verif hook uci.VerifLimits; the use sites (timer arming, SoftTime option) are checked by C13's scripts")
}
