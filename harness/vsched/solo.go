package vsched

import (
	"fmt"
	"time"
)

// SoloPlan is the fault-plan mode: the instrumented code runs natively on
// the calling goroutine (no threads, no scheduler) and every environment
// question is answered from the plan: the stop channel is observed closed
// from the StopAt-th poll on, the ponderhit arrives at the PonderAt-th poll
// of its channel, the virtual clock is whatever Now holds.
type SoloPlan struct {
	Now    time.Time
	Timers []time.Duration

	Stop     any // the stop channel (identity)
	Ponder   any // the ponderhit channel (identity)
	StopAt   int // index of the first poll of Stop that finds it closed; <0 = never
	PonderAt int // index of the poll of Ponder that receives the hit; <0 = never

	StopPolls   int
	PonderPolls int
	// Trace records 's' for a stop poll, 'S' for the one that fires, 'p'/'P' for ponder polls.
	Trace []byte
	// OnPoll, if set, is called at every stop poll (used to advance the virtual clock).
	OnPoll func(p *SoloPlan)
}

func (p *SoloPlan) selectSolo(hasDefault bool, chans []any) (int, any, bool) {
	if !hasDefault || len(chans) != 1 {
		panic(fmt.Sprintf("vsched solo mode: unsupported select (default=%v, %d cases)", hasDefault, len(chans)))
	}
	c := chanPtr(chans[0])
	switch {
	case c != 0 && c == chanPtr(p.Stop):
		n := p.StopPolls
		p.StopPolls++
		if p.OnPoll != nil {
			p.OnPoll(p)
		}
		if p.StopAt >= 0 && n >= p.StopAt {
			p.Trace = append(p.Trace, 'S')
			return 0, nil, false // closed
		}
		p.Trace = append(p.Trace, 's')
		return -1, nil, false
	case c != 0 && c == chanPtr(p.Ponder):
		n := p.PonderPolls
		p.PonderPolls++
		if p.PonderAt >= 0 && n == p.PonderAt {
			p.Trace = append(p.Trace, 'P')
			return 0, p.Now, true
		}
		p.Trace = append(p.Trace, 'p')
		return -1, nil, false
	}
	panic("vsched solo mode: select on a channel the plan does not know")
}
