package checks

import (
	"sync/atomic"

	"verif/ev"
	"verif/refchess"
	"verif/universe"
)

// fourMan is the list of 4-man classes used by several checks; the order is
// fixed, VERIF_SEED rotates which of them a quick run adds on top of its fixed
// baseline.
var fourMan = []string{
	"KPkp", "KQkr", "KRkr", "KRkp", "KRkb", "KRkn", "KBkn", "KQkp", "KPPk", "KNPk", "KBPk",
	"KBBk", "KRRk", "KBNk", "KNNk", "KQkq", "KQkb", "KQkn", "KRPk", "KQPk", "Kkpp", "KPkr", "KPkq", "KBkp", "KNkp",
	"KPkn", "KPkb", "Kkrr", "Kkbn", "Kknp", "Kkbp", "Kkrp", "Kkqp",
}

// lightFour are the 4-man classes cheap enough for the seed-rotated part of a quick run
// (pawn classes: fewer placements and fewer moves than two-heavy-piece classes).
var lightFour = []string{"KPkp", "KPPk", "KNPk", "KBPk", "Kkpp", "KPkn", "KPkb", "KNkp", "KBkp", "Kknp", "Kkbp", "KRkp", "KPkr", "KBkn", "KNNk", "KBNk"}

// seedFour picks n 4-man classes: from the light list in the quick tier, from the full list in the thorough tier.
func seedFour(r *ev.Run, offset int64, quick, thorough int) []string {
	if r.Thorough() {
		return seedPick(fourMan, r.Seed+offset, thorough)
	}
	return seedPick(lightFour, r.Seed+offset, quick)
}

func parseClasses(names []string) []universe.Class {
	var out []universe.Class
	for _, n := range names {
		out = append(out, universe.ParseClass(n))
	}
	return out
}

// seedPick returns n names of list starting at a seed-dependent offset.
func seedPick(list []string, seed int64, n int) []string {
	var out []string
	for i := 0; i < n && i < len(list); i++ {
		ix := (int(seed%int64(len(list)))*n + i) % len(list)
		if ix < 0 {
			ix += len(list)
		}
		out = append(out, list[ix])
	}
	return out
}

// forClasses enumerates every valid position of the classes on all cores.
// newWorker creates per-goroutine state. It returns false if the internal
// deadline cut the enumeration short.
func forClasses[W any](r *ev.Run, classes []universe.Class, o universe.Opts, newWorker func() W, fn func(w W, p *refchess.Pos)) bool {
	return forClassShards(r, classes, o, nil, newWorker, fn)
}

// forCastlingPositions enumerates the positions of the classes that carry castling rights: White's king on e1
// (any black king), and Black's king on e8 (any white king); positions without rights are skipped.
func forCastlingPositions[W any](r *ev.Run, classes []universe.Class, newWorker func() W, fn func(w W, p *refchess.Pos)) {
	o := universe.Opts{OnlySpecial: true, NoEP: true}
	forClassShards(r, classes, o, []int{4}, newWorker, fn)
	o.BlackKingIn = []int{60}
	forClassShards(r, classes, o, nil, newWorker, func(w W, p *refchess.Pos) {
		if p.Sq[4] == refchess.King && p.Castle&3 != 0 {
			return // already visited by the first enumeration
		}
		fn(w, p)
	})
}

// forClassShards is forClasses restricted to the given white-king squares (nil = all 64).
func forClassShards[W any](r *ev.Run, classes []universe.Class, o universe.Opts, shards []int, newWorker func() W, fn func(w W, p *refchess.Pos)) bool {
	type job struct {
		c  universe.Class
		sh int
	}
	var jobs []job
	for _, c := range classes {
		for sh := 0; sh < 64; sh++ {
			if shards != nil {
				in := false
				for _, x := range shards {
					if x == sh {
						in = true
					}
				}
				if !in {
					continue
				}
			}
			jobs = append(jobs, job{c, sh})
		}
	}
	ws := make([]W, ev.Workers())
	made := make([]bool, ev.Workers())
	var skipped atomic.Int64
	ev.Parallel(len(jobs), func(worker, item int) {
		if r.Expired() {
			skipped.Add(1)
			return
		}
		if !made[worker] {
			ws[worker] = newWorker()
			made[worker] = true
		}
		oo := o
		oo.Shard = jobs[item].sh
		w := ws[worker]
		universe.EnumShard(jobs[item].c, oo, func(p *refchess.Pos) { fn(w, p) })
	})
	if skipped.Load() > 0 {
		r.Set("class_shards_skipped_by_deadline", skipped.Load())
		return false
	}
	return true
}

func classNames(cs []universe.Class) []string {
	var out []string
	for _, c := range cs {
		out = append(out, c.Name)
	}
	return out
}

// uniqStrings removes later duplicates.
func uniqStrings(in []string) []string {
	seen := map[string]bool{}
	var out []string
	for _, s := range in {
		if !seen[s] {
			seen[s] = true
			out = append(out, s)
		}
	}
	return out
}
