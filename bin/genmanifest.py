#!/usr/bin/env python3
"""Regenerates /verif/MANIFEST.json from the table below (kept in one place so the manifest stays valid)."""
import json, subprocess, os

CHECKS = {
 "C01": dict(cat="model_checking", design="§5 C01",
   technique="bounded exhaustive enumeration (closed material classes + legal-move trees) of the real generator/make/undo in lock-step with an independent mailbox rules model; set comparison",
   text="Every valid position of all 3-man and selected 4-man material classes (all placements x side x rights x en-passant targets) and every node of the depth-2/3 legal-move trees below 233 roots (as played, as reloaded from FEN, with FIDE-style ep FEN) has its engine playable set compared, as a set and for duplicates, with the legal moves of an independent reference model that is itself validated against 664 published perft counts.",
   note="Trusted: refchess (validated against published perft numbers in setup and in lock-step on every transition); small-scope hypothesis for geometries needing more than 4 men outside the root trees."),
}

PENDING = {
}

def main():
    root = "/verif"
    props = [json.loads(l) for l in open(os.path.join(root, "properties.jsonl"))]
    try:
        commits = subprocess.check_output(["git", "-C", "/repo", "log", "--format=%H %s"], text=True).splitlines()
    except Exception:
        commits = []
    hook_commits = [c.split()[0] for c in commits if " verif hook" in c]
    checks = []
    for pid, c in CHECKS.items():
        checks.append({
            "property_id": pid,
            "quick_cmd": f"bin/check {pid} quick",
            "thorough_cmd": f"bin/check {pid} thorough",
            "evidence_file": f"/verif/evidence/{pid}.json",
            "replay_cmd_template": f"bin/check {pid} --replay {{path}}",
            "engine": "verifcheck",
            "level_claimed": {"category": c["cat"], "text": c["text"], "design_ref": c["design"]},
            "level_note": c["note"],
            "technique": c["technique"],
        })
    na = []
    for p in props:
        if p["id"] not in CHECKS:
            na.append({"property_id": p["id"], "reason": PENDING.get(p["id"], "check not built yet (work in progress; the technique applies, see DESIGN.md)")})
    m = {
        "version": 1,
        "setup_cmd": "bin/setup",
        "hooks": {
            "guard": "verif",
            "enable": "go build -tags verif (bin/check builds /verif/harness against /repo via a replace directive; instrumented variants add -overlay produced by harness/instr)",
            "baseline_off_cmd": ". /verif/bin/env.sh && cd /repo && go test -mod=mod -vet=off -count=1 -timeout 25m ./...",
            "source_commits": hook_commits,
            "add_only": True,
        },
        "engines": [
            {"name": "verifcheck", "path": "/verif/harness", "serves_properties": sorted(CHECKS), "kind_free_text": "hand-written bounded exhaustive explorer: explicit-state / input-class enumeration over the real implementation in lock-step with reference models (refchess, ttmodel), controlled scheduler for the UCI driver"},
        ],
        "checks": checks,
        "not_applicable": na,
        "notes": "All checks: cwd=/verif. VERIF_TIER overrides the tier argument; VERIF_SEED rotates the additional complete sub-universe of a quick run. See DESIGN.md.",
    }
    json.dump(m, open(os.path.join(root, "MANIFEST.json"), "w"), indent=1)
    print("wrote MANIFEST.json with", len(checks), "checks,", len(na), "not_applicable")

if __name__ == "__main__":
    main()
