// verifcheck <ID> [quick|thorough] | verifcheck <ID> --replay <file>
package main

import (
	"fmt"
	"os"

	"verif/checks"
)

func main() {
	if len(os.Args) < 2 {
		fmt.Fprintf(os.Stderr, "usage: verifcheck <ID> [quick|thorough] | verifcheck <ID> --replay <file>\nchecks: %v\n", checks.IDs())
		os.Exit(2)
	}
	id := os.Args[1]
	tier, replay := "quick", ""
	for i := 2; i < len(os.Args); i++ {
		switch os.Args[i] {
		case "--replay":
			if i+1 < len(os.Args) {
				replay = os.Args[i+1]
				i++
			}
		case "quick", "thorough":
			tier = os.Args[i]
		}
	}
	checks.Main(id, tier, replay)
}
