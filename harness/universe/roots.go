package universe

import (
	"bufio"
	"fmt"
	"os"
	"path/filepath"
	"strings"

	"verif/ev"
	"verif/refchess"
)

// Root is a named start position.
type Root struct {
	Name string
	FEN  string
	Pos  refchess.Pos
}

func loadFENFile(path, prefix string, epd bool) ([]Root, error) {
	f, err := os.Open(path)
	if err != nil {
		return nil, err
	}
	defer f.Close()
	var out []Root
	sc := bufio.NewScanner(f)
	n := 0
	for sc.Scan() {
		line := strings.TrimSpace(sc.Text())
		if line == "" || strings.HasPrefix(line, "#") {
			continue
		}
		name := ""
		if i := strings.Index(line, " #"); i >= 0 {
			name = strings.TrimSpace(line[i+2:])
			line = strings.TrimSpace(line[:i])
		}
		if epd {
			if i := strings.Index(line, " ;"); i >= 0 {
				line = line[:i]
			}
		}
		p, err := refchess.ParseFEN(line)
		if err != nil {
			return nil, fmt.Errorf("%s: %q: %v", path, line, err)
		}
		if !p.Valid() {
			return nil, fmt.Errorf("%s: %q is not a valid position", path, line)
		}
		n++
		out = append(out, Root{Name: fmt.Sprintf("%s%03d %s", prefix, n, name), FEN: line, Pos: p})
	}
	return out, sc.Err()
}

// PerftRoots are the roots of /repo/debug/standard.epd (read from the
// repository's working tree).
func PerftRoots() []Root {
	repo := os.Getenv("VERIF_REPO")
	if repo == "" {
		repo = "/repo"
	}
	r, err := loadFENFile(filepath.Join(repo, "debug", "standard.epd"), "perft", true)
	if err != nil {
		panic(err)
	}
	return r
}

// BenchRoots are the 50 bench positions of main.go (copied to corpus/bench.fen).
func BenchRoots() []Root {
	r, err := loadFENFile(filepath.Join(ev.Root, "corpus", "bench.fen"), "bench", false)
	if err != nil {
		panic(err)
	}
	return r
}

// SpecialRoots are the constructed roots of corpus/special.fen.
func SpecialRoots() []Root {
	r, err := loadFENFile(filepath.Join(ev.Root, "corpus", "special.fen"), "special", false)
	if err != nil {
		panic(err)
	}
	return r
}

// AllRoots is special + perft + bench.
func AllRoots() []Root {
	out := SpecialRoots()
	out = append(out, PerftRoots()...)
	out = append(out, BenchRoots()...)
	return out
}
