package checks

import (
	"bytes"
	"encoding/json"
	"fmt"
	"io"
	"os"
	"os/exec"
	"path/filepath"
	"regexp"
	"strings"
	"time"

	"github.com/paulsonkoly/chess-3/board"
	. "github.com/paulsonkoly/chess-3/chess"
	"github.com/paulsonkoly/chess-3/search"
	"github.com/paulsonkoly/chess-3/uci"

	"verif/ev"
	"verif/vsched"
)

// ---- solo (fault-plan) runs of the real, instrumented search ---------------------

type traceWriter struct {
	plan *vsched.SoloPlan
	buf  bytes.Buffer
}

func (w *traceWriter) Write(p []byte) (int, error) {
	w.plan.Trace = append(w.plan.Trace, 'w')
	return w.buf.Write(p)
}

// soloSearch runs the real search with the stop channel observed closed from the stopAt-th poll on
// and the ponderhit delivered at the ponderAt-th poll of its channel.
func soloSearch(s *search.Search, b *board.Board, depth int, stopAt, ponderAt int, withPonder bool) (searchRes, *vsched.SoloPlan) {
	return soloSearchN(s, b, depth, -1, stopAt, ponderAt, withPonder)
}

// soloSoftTime runs the real search with a soft time limit on the virtual clock, which advances by 1 ms at every stop poll.
func soloSoftTime(s *search.Search, b *board.Board, depth int, softMs int64) (searchRes, *vsched.SoloPlan) {
	stop := make(chan struct{})
	plan := &vsched.SoloPlan{Now: time.Unix(2_000_000, 0), Stop: (<-chan struct{})(stop), StopAt: -1, PonderAt: -1}
	plan.OnPoll = func(p *vsched.SoloPlan) { p.Now = p.Now.Add(time.Millisecond) }
	tw := &traceWriter{plan: plan}
	var cnt search.Counters
	vsched.Solo = plan
	sc, mv, pm := s.Go(b, search.WithOutput(tw), search.WithCounters(&cnt), search.WithDepth(Depth(depth)), search.WithStop(stop), search.WithSoftTime(softMs))
	vsched.Solo = nil
	res := searchRes{Score: sc, Move: mv, Ponder: pm, Nodes: cnt.Nodes, Out: tw.buf.String()}
	res.Infos, _ = parseInfo(res.Out)
	return res, plan
}

func soloSearchN(s *search.Search, b *board.Board, depth, nodes int, stopAt, ponderAt int, withPonder bool) (searchRes, *vsched.SoloPlan) {
	stop := make(chan struct{})
	var ponder chan time.Time
	plan := &vsched.SoloPlan{Now: time.Unix(2_000_000, 0), Stop: (<-chan struct{})(stop), StopAt: stopAt, PonderAt: ponderAt}
	tw := &traceWriter{plan: plan}
	var cnt search.Counters
	opts := []search.Option{search.WithOutput(tw), search.WithCounters(&cnt), search.WithDepth(Depth(depth)), search.WithStop(stop)}
	if nodes >= 0 {
		opts = append(opts, search.WithNodes(nodes))
	}
	if withPonder {
		ponder = make(chan time.Time, 1)
		plan.Ponder = (<-chan time.Time)(ponder)
		opts = append(opts, search.WithPonderHit(ponder))
	}
	vsched.Solo = plan
	sc, mv, pm := s.Go(b, opts...)
	vsched.Solo = nil
	res := searchRes{Score: sc, Move: mv, Ponder: pm, Nodes: cnt.Nodes, Out: tw.buf.String()}
	res.Infos, _ = parseInfo(res.Out)
	return res, plan
}

// the interaction protocol of a search as the mock implements it: per iteration any number of stop
// polls, an optional ponderhit poll, one info write; an abort is a firing stop poll followed by the abort line
var c13Protocol = regexp.MustCompile(`^(s*[pP]?w)*(s*Sw)?$`)

func init() {
	register(&Check{ID: "C13trace", Level: "model_checking", Run: runC13Trace})
	register(&Check{ID: "C06stop", Level: "fault_enumeration", Run: runC06Stop})
}

var soloRoots = []string{
	"8/8/8/4k3/8/4K3/8/8 w - - 98 60", "7k/5Q2/6K1/8/8/8/8/8 b - - 0 1", "6rk/5Npp/8/8/8/8/8/4K3 b - - 0 1",
	"8/8/8/4k3/8/8/4P3/4K3 w - - 0 1", "8/8/8/4k3/8/8/4P3/4K3 b - - 0 1", "4k3/8/8/8/8/8/8/4K2R w K - 0 1", "7k/5Q2/6K1/8/8/8/8/8 b - - 0 1",
	"r3k2r/8/8/8/8/3r4/8/R3K2R w KQkq - 0 1", "4k3/8/8/8/3pP3/8/8/4K3 b - e3 0 1", "8/P7/8/8/8/8/7p/K1k5 w - - 0 1", "4k3/8/8/8/8/8/8/4K2R w K - 99 60",
	"rnbqkbnr/pppppppp/8/8/8/8/PPPPPPPP/RNBQKBNR w KQkq - 0 1", "r1bqkbnr/pppp1ppp/2n5/4p3/4P3/5N2/PPPP1PPP/RNBQKB1R w KQkq - 2 3",
	"6rk/5Npp/8/8/8/8/8/4K3 b - - 0 1", "8/8/8/8/8/5k2/4p3/4K3 w - - 0 1", "2K5/8/2k5/8/8/8/8/r7 w - - 0 1", "k7/8/8/K2Pp2r/8/8/8/8 w - e6 0 1",
}

// runC13Trace validates the mock's protocol against traces of the real search.
func runC13Trace(r *ev.Run) {
	if !Instrumented {
		fmt.Println(`{"error":"not instrumented"}`)
		os.Exit(2)
	}
	n, bad := 0, ""
	s := search.New(32000)
	for _, fen := range soloRoots {
		b, err := board.FromFEN(fen)
		if err != nil {
			continue
		}
		for depth := 1; depth <= 3; depth++ {
			for _, withPonder := range []bool{false, true} {
				for _, stopAt := range []int{-1, 0, 1, 5, 40, 300} {
					s.Clear()
					_, plan := soloSearch(s, b, depth, stopAt, 1, withPonder)
					n++
					if !c13Protocol.Match(plan.Trace) && bad == "" {
						bad = fmt.Sprintf("%s depth %d stopAt %d ponder %v: trace %s", fen, depth, stopAt, withPonder, trunc(string(plan.Trace)))
					}
				}
			}
		}
	}
	// a pondering search with an exhausted node budget must still honour stop: the stop channel is
	// closed from poll i on and the search has to come back (watchdog: a search of a 3-man position
	// that does not return within 60 s after stop was closed is reported as not honouring stop)
	hung := ""
	var current string
	watchdog := time.AfterFunc(60*time.Second, func() {
		out, _ := json.Marshal(map[string]any{"traces": n, "rejected": bad, "hung": current})
		fmt.Println(string(out))
		os.Exit(0)
	})
	for _, fen := range soloRoots[:9] {
		b, err := board.FromFEN(fen)
		if err != nil {
			continue
		}
		for _, nodes := range []int{-1, 0, 7, 40, 1000} {
			for _, stopAt := range []int{0, 1, 9, 60, 400, 3000, 20000} {
				current = fmt.Sprintf("%s: pondering search with node budget %d, stop closed from poll %d on: the search does not return", fen, nodes, stopAt)
				s.Clear()
				if p, st := ev.Catch(func() { soloSearchN(s, b, 2, nodes, stopAt, -1, true) }); p != nil && hung == "" {
					vsched.Solo = nil
					hung = fmt.Sprintf("%s: pondering search with node budget %d, stop closed from poll %d on: the search panics: %v\n%s", fen, nodes, stopAt, p, firstLines(st, 10))
					s = search.New(32000)
				}
				n++
			}
		}
	}
	watchdog.Stop()
	out, _ := json.Marshal(map[string]any{"traces": n, "rejected": bad, "hung": hung})
	fmt.Println(string(out))
	os.Exit(0)
}

// c13Hung is set by the trace validation when a real search did not honour stop.
var c13Hung string

func c13TraceValidation(bin string) int64 {
	cmd := exec.Command(bin, "C13trace")
	out, err := cmd.Output()
	if err != nil {
		fmt.Fprintf(os.Stderr, "instrument error: trace validation run failed: %v\n", err)
		os.Exit(2)
	}
	var res struct {
		Traces   int64  `json:"traces"`
		Rejected string `json:"rejected"`
		Hung     string `json:"hung"`
	}
	lines := strings.Split(strings.TrimSpace(string(out)), "\n")
	json.Unmarshal([]byte(lines[len(lines)-1]), &res)
	c13Hung = res.Hung
	if res.Rejected != "" {
		// the mock no longer models the real search: exploration results with it cannot be trusted
		fmt.Fprintf(os.Stderr, "instrument error: a trace of the real search is not accepted by the mock's protocol automaton: %s\n", res.Rejected)
		os.Exit(2)
	}
	return res.Traces
}

// ---- C06 (b): stop observed at the i-th poll, for every i -------------------------

type c06StopCase struct {
	FEN    string `json:"fen"`
	Depth  int    `json:"depth"`
	StopAt int    `json:"stop_at_poll"`
}

func c06StopOne(s *search.Search, fen string, depth, stopAt int) (string, string, int) {
	h, err := newHistory(fen, nil)
	if err != nil {
		return "", "", 0
	}
	var before, after board.VerifSnap
	s.Clear()
	h.B.VerifSnapshotInto(&before)
	res, plan := soloSearch(s, h.B, depth, stopAt, -1, false)
	h.B.VerifSnapshotInto(&after)
	if d := snapEqual(&before, &after); d != "" {
		return "stop/board-changed", fmt.Sprintf("%s depth %d stop at poll %d: the board differs after the search: %s", fen, depth, stopAt, d), plan.StopPolls
	}
	req := searchReq{FEN: fen, Depth: depth, Nodes: -1}
	if cls, msg := judgeMove(h, req, &res); cls != "" {
		return "stop/" + cls, fmt.Sprintf("%s depth %d stop at poll %d: %s", fen, depth, stopAt, msg), plan.StopPolls
	}
	if cls, msg := judgePV(h, &res); cls != "" {
		return "stop/pv/" + cls, fmt.Sprintf("%s depth %d stop at poll %d: %s", fen, depth, stopAt, msg), plan.StopPolls
	}
	return "", "", plan.StopPolls
}

// runC06Stop: sub-run in the instrumented binary; prints a JSON summary.
func runC06Stop(r *ev.Run) {
	if !Instrumented {
		fmt.Println(`{"error":"not instrumented"}`)
		os.Exit(2)
	}
	type fl struct {
		Class string      `json:"class"`
		Case  c06StopCase `json:"case"`
		Msg   string      `json:"msg"`
	}
	var fails []fl
	runs := 0
	s := search.New(32000)
	depths := ev.Pick(r, []int{1, 2, 3}, []int{1, 2, 3, 4})
	deadline := time.Now().Add(time.Duration(ev.Pick(r, 25, 300)) * time.Second)
	capped := false
	for _, fen := range soloRoots {
		for _, d := range depths {
			polls := 0
			if p, _ := ev.Catch(func() { _, _, polls = c06StopOne(s, fen, d, -1) }); p != nil {
				vsched.Solo = nil
				fails = append(fails, fl{"stop/engine-panic", c06StopCase{fen, d, -1}, fmt.Sprintf("%s depth %d: the search panics: %v", fen, d, p)})
				s = search.New(32000)
			}
			runs++
			for i := 0; i <= polls && len(fails) < 3; i++ {
				if time.Now().After(deadline) {
					capped = true
					break
				}
				runs++
				var cls, msg string
				if p, st := ev.Catch(func() { cls, msg, _ = c06StopOne(s, fen, d, i) }); p != nil {
					vsched.Solo = nil
					cls, msg = "stop/engine-panic", fmt.Sprintf("%s depth %d stop at poll %d (after %d searches on this instance): the search panics: %v\n%s", fen, d, i, runs, p, firstLines(st, 10))
					s = search.New(32000)
				}
				if cls != "" {
					fails = append(fails, fl{cls, c06StopCase{fen, d, i}, msg})
				}
			}
		}
	}
	// soft time limits on the virtual clock (1 ms per poll): the search ends between iterations once the
	// elapsed virtual time exceeds the limit; every limit from 1 ms up to the length of the full search
	for _, fen := range soloRoots {
		h, err := newHistory(fen, nil)
		if err != nil {
			continue
		}
		_, fullPlan := soloSoftTime(s, h.B, 4, 1<<40)
		for ms := int64(1); ms <= int64(fullPlan.StopPolls)+1 && len(fails) < 3; ms += 1 + ms/16 {
			s.Clear()
			res, _ := soloSoftTime(s, h.B, 4, ms)
			runs++
			req := searchReq{FEN: fen, Depth: 4, Nodes: -1}
			if cls, msg := judgeMove(h, req, &res); cls != "" {
				fails = append(fails, fl{"softtime/" + cls, c06StopCase{fen, 4, int(ms)}, fmt.Sprintf("%s depth 4 soft time %d ms (virtual clock): %s", fen, ms, msg)})
			} else if cls, msg := judgePV(h, &res); cls != "" {
				fails = append(fails, fl{"softtime/pv/" + cls, c06StopCase{fen, 4, int(ms)}, fmt.Sprintf("%s depth 4 soft time %d ms (virtual clock): %s", fen, ms, msg)})
			}
		}
	}
	out, _ := json.Marshal(map[string]any{"runs": runs, "capped": capped, "failures": fails})
	fmt.Println(string(out))
	os.Exit(0)
}

// c06StopSweep runs the sub-run and folds its findings into r.
func c06StopSweep(r *ev.Run) int64 {
	bin := filepath.Join(ev.Root, ".build", "verifcheck-instr")
	if _, err := os.Stat(bin); err != nil {
		r.Assume("stop-poll sweep not executed: instrumented binary missing (run through bin/check)")
		return 0
	}
	cmd := exec.Command(bin, "C06stop", r.Tier)
	out, err := cmd.Output()
	if err != nil {
		fmt.Fprintf(os.Stderr, "instrument error: stop-poll sweep failed: %v\n", err)
		os.Exit(2)
	}
	var res struct {
		Runs     int64 `json:"runs"`
		Capped   bool  `json:"capped"`
		Failures []struct {
			Class string      `json:"class"`
			Case  c06StopCase `json:"case"`
			Msg   string      `json:"msg"`
		} `json:"failures"`
	}
	lines := strings.Split(strings.TrimSpace(string(out)), "\n")
	if json.Unmarshal([]byte(lines[len(lines)-1]), &res) != nil {
		fmt.Fprintln(os.Stderr, "instrument error: stop-poll sweep output not understood")
		os.Exit(2)
	}
	for _, f := range res.Failures {
		r.Fail(f.Class, f.Case, "%s", f.Msg)
	}
	return res.Runs
}

// ---- complementary race pass for the driver ---------------------------------------

// runC13Race: free-running real driver + real search under the race detector, command delays swept.
func runC13Race(r *ev.Run) {
	delays := []time.Duration{0, 20 * time.Microsecond, 200 * time.Microsecond, 2 * time.Millisecond}
	scripts := [][]string{
		{"isready", "go depth 4", "isready", "stop", "isready"},
		{"go infinite", "isready", "stop"},
		{"setoption name Ponder value true", "go ponder wtime 60000 btime 60000", "isready", "ponderhit", "stop"},
		{"go movetime 3", "isready"},
		{"go depth 3", "quit"},
	}
	bad := ""
	n := 0
	for _, sc := range scripts {
		for _, d := range delays {
			if bad != "" {
				break
			}
			n++
			pr, pw := io.Pipe()
			out := newSyncBuf()
			drv := uci.NewDriver(uci.WithInput(pr), uci.WithOutput(out), uci.WithError(io.Discard), uci.WithSearch(search.New(1<<20)))
			done := make(chan struct{})
			go func() { drv.Run(); close(done) }()
			gos := 0
			for _, ln := range sc {
				if strings.HasPrefix(ln, "go") {
					gos++
				}
			}
			// the feeder runs on its own goroutine: a driver that stops reading must not hang the harness
			go func() {
				for _, ln := range sc {
					io.WriteString(pw, ln+"\n")
					time.Sleep(d)
				}
				pw.Close()
			}()
			select {
			case <-done:
			case <-time.After(30 * time.Second):
				bad = fmt.Sprintf("driver did not terminate within 30 s after end of input for %v", sc)
			}
			if c := strings.Count(out.String(), "bestmove"); c != gos && bad == "" {
				bad = fmt.Sprintf("%v: %d go, %d bestmove", sc, gos, c)
			}
		}
	}
	fmt.Printf("C13race done runs=%d bad=%q\n", n, bad)
	os.Exit(0)
}

func c13RacePass(r *ev.Run) string {
	bin := filepath.Join(ev.Root, ".build", "verifcheck-race")
	if _, err := os.Stat(bin); err != nil {
		return "race binary not built (run through bin/check)"
	}
	cmd := exec.Command(bin, "C13race", r.Tier)
	cmd.Env = append(os.Environ(), "GORACE=halt_on_error=0 exitcode=0")
	out, err := cmd.CombinedOutput()
	text := string(out)
	if strings.Contains(text, "DATA RACE") {
		ix := strings.Index(text, "WARNING: DATA RACE")
		r.Fail("data-race", c13Case{}, "race detector report while a free-running driver handles commands during a real search:\n%s", firstLines(text[ix:], 30))
		return "race reported"
	}
	if err != nil || !strings.Contains(text, "C13race done") {
		return "race binary failed: " + trunc(text)
	}
	if i := strings.Index(text, `bad="`); i >= 0 && !strings.Contains(text, `bad=""`) {
		r.Fail("free-running", c13Case{}, "free-running driver misbehaved: %s", trunc(text[i:]))
	}
	return "20 free-running driver runs with swept command delays, no race reported (silence proves nothing)"
}
