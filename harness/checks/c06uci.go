package checks

import (
	"encoding/json"
	"fmt"
	"io"
	"strings"
	"sync"
	"time"

	"github.com/paulsonkoly/chess-3/search"
	"github.com/paulsonkoly/chess-3/uci"

	"verif/ev"
	"verif/refchess"
)

// syncBuf is a goroutine-safe output sink that can be waited on.
type syncBuf struct {
	mu   sync.Mutex
	cond *sync.Cond
	data []byte
}

func newSyncBuf() *syncBuf {
	s := &syncBuf{}
	s.cond = sync.NewCond(&s.mu)
	return s
}

func (s *syncBuf) Write(p []byte) (int, error) {
	s.mu.Lock()
	s.data = append(s.data, p...)
	s.cond.Broadcast()
	s.mu.Unlock()
	return len(p), nil
}

// waitFor blocks until the output contains n occurrences of substr or the timeout passes.
func (s *syncBuf) waitFor(substr string, n int, d time.Duration) bool {
	deadline := time.Now().Add(d)
	timer := time.AfterFunc(d, func() { s.mu.Lock(); s.cond.Broadcast(); s.mu.Unlock() })
	defer timer.Stop()
	s.mu.Lock()
	defer s.mu.Unlock()
	for strings.Count(string(s.data), substr) < n {
		if time.Now().After(deadline) {
			return false
		}
		s.cond.Wait()
	}
	return true
}

func (s *syncBuf) String() string {
	s.mu.Lock()
	defer s.mu.Unlock()
	return string(s.data)
}

// uciSession drives a real driver with the real search through a pipe: each
// `go` is followed by a wait for its bestmove before the next line is sent
// (protocol-conforming GUI). It returns stdout. ok=false means a bestmove
// did not arrive within the (generous) timeout.
func uciSession(lines []string) (string, bool) {
	pr, pw := io.Pipe()
	out := newSyncBuf()
	var errb syncBuf
	errb.cond = sync.NewCond(&errb.mu)
	d := uci.NewDriver(uci.WithInput(pr), uci.WithOutput(out), uci.WithError(&errb), uci.WithSearch(search.New(1<<20)))
	done := make(chan struct{})
	go func() { d.Run(); close(done) }()
	okc := make(chan bool, 1)
	// the feeder runs on its own goroutine: a driver that stops reading must not hang the harness
	go func() {
		ok := true
		gos := 0
		for _, ln := range lines {
			io.WriteString(pw, ln+"\n")
			if strings.HasPrefix(ln, "go") {
				gos++
				if !out.waitFor("bestmove", gos, 120*time.Second) {
					ok = false
					break
				}
			}
		}
		io.WriteString(pw, "quit\n")
		pw.Close()
		okc <- ok
	}()
	ok := false
	select {
	case ok = <-okc:
		select {
		case <-done:
		case <-time.After(120 * time.Second):
			ok = false
		}
	case <-time.After(300 * time.Second):
	}
	return out.String(), ok
}

type c06UCICase struct {
	FEN   string   `json:"position"`
	Moves []string `json:"moves,omitempty"`
	Go    string   `json:"go"`
}

func c06UCIJudge(c c06UCICase) (string, string) {
	pos := "position fen " + c.FEN
	if len(c.Moves) > 0 {
		pos += " moves " + strings.Join(c.Moves, " ")
	}
	out, ok := uciSession([]string{pos, c.Go})
	if !ok {
		return "uci/no-bestmove", fmt.Sprintf("%s / %s: no bestmove within the timeout", pos, c.Go)
	}
	best := ""
	for _, ln := range strings.Split(out, "\n") {
		if strings.HasPrefix(ln, "bestmove ") {
			best = strings.Fields(ln)[1]
		}
	}
	h, err := newHistory(c.FEN, c.Moves)
	if err != nil {
		return "", ""
	}
	fin, _ := h.final()
	if best == "0000" {
		if !fin {
			return "uci/null-move-on-live-root", fmt.Sprintf("%s / %s answers bestmove 0000 on a live root", pos, c.Go)
		}
		return "", ""
	}
	var buf [256]refchess.Move
	for _, m := range h.Pos.LegalMoves(buf[:0]) {
		if m.String() == best {
			return "", ""
		}
	}
	return "uci/illegal-move", fmt.Sprintf("%s / %s answers bestmove %s, which is not legal", pos, c.Go, best)
}

func c06ReplayUCI(raw json.RawMessage) (bool, string) {
	var c c06UCICase
	if err := json.Unmarshal(raw, &c); err != nil {
		return false, err.Error()
	}
	if cls, msg := c06UCIJudge(c); cls != "" {
		return true, msg
	}
	return false, "bestmove legal"
}

// c06UCI sends `go` with numeric edge arguments. Every depth probe carries a
// nodes cap and every nodes/movetime probe a small depth, so that the run
// terminates whatever the engine makes of the argument.
func c06UCI(r *ev.Run) int64 {
	vals := []string{"-1", "0", "1", "2", "63", "64", "65", "127", "128", "129", "200", "255", "256", "300", "1000000", "2147483648", "9223372036854775807", "9223372036854775808", "abc", "1.5"}
	positions := []c06UCICase{
		{FEN: "rnbqkbnr/pppppppp/8/8/8/8/PPPPPPPP/RNBQKBNR w KQkq - 0 1"},
		{FEN: "4k3/8/8/8/8/8/8/4K2R w K - 0 1"},
		{FEN: "7k/5Q2/6K1/8/8/8/8/8 b - - 0 1"},
		{FEN: "rnbqkbnr/pppppppp/8/8/8/8/PPPPPPPP/RNBQKBNR w KQkq - 0 1", Moves: []string{"g1f3", "g8f6", "f3g1", "f6g8", "g1f3", "g8f6", "f3g1", "f6g8"}},
	}
	var cases []c06UCICase
	for _, p := range positions {
		for _, v := range vals {
			q := p
			q.Go = "go depth " + v + " nodes 3000"
			cases = append(cases, q)
			q.Go = "go nodes " + v + " depth 3"
			cases = append(cases, q)
			q.Go = "go movetime " + v + " depth 2"
			cases = append(cases, q)
		}
		for _, g := range []string{"go depth 2 wtime 1 btime 1", "go depth 2 wtime -5 btime -5 winc 100 binc 100", "go depth 1", "go nodes 0", "go depth", "go nodes", "go depth 3 nodes"} {
			q := p
			q.Go = g
			cases = append(cases, q)
		}
	}
	ev.Parallel(len(cases), func(worker, item int) {
		c := cases[item]
		if strings.HasSuffix(c.Go, "depth") || strings.HasSuffix(c.Go, "nodes") {
			// "argument missing": the driver prints an error and no bestmove; not a search
			return
		}
		// depth < 1 is outside the property ("depth of at least 1")
		f := strings.Fields(c.Go)
		for i := range f {
			if f[i] == "depth" && i+1 < len(f) && (strings.HasPrefix(f[i+1], "-") || f[i+1] == "0" || f[i+1] == "abc" || f[i+1] == "1.5" || len(f[i+1]) > 18) {
				return
			}
		}
		if cls, msg := c06UCIJudge(c); cls != "" {
			r.Fail(cls, c, "%s", msg)
		}
	})
	return int64(len(cases))
}
