package refchess

// Static exchange reference: plain recursion over the capture sequence on one
// square, every choice among equally valued least attackers explored.

// SEEVal are the exchange values (pawn..king) named by the property's anchor.
var SEEVal = [7]int{0, 100, 300, 300, 500, 900, 10000}

type seeState struct {
	p   *Pos
	occ [64]bool
	to  int
}

// attackers lists the squares of men of colour side that attack s.to given occ.
func (s *seeState) attackers(side int, out []int) []int {
	p := s.p
	f, r := file(s.to), rank(s.to)
	has := func(sq int, k int8) bool { return s.occ[sq] && p.Sq[sq] == mk(side, k) }
	pr := r - 1
	if side == Black {
		pr = r + 1
	}
	for _, df := range [2]int{-1, 1} {
		if on(f+df, pr) && has(pr*8+f+df, Pawn) {
			out = append(out, pr*8+f+df)
		}
	}
	for _, d := range knightD {
		if on(f+d[0], r+d[1]) && has((r+d[1])*8+f+d[0], Knight) {
			out = append(out, (r+d[1])*8+f+d[0])
		}
	}
	for _, d := range kingD {
		if on(f+d[0], r+d[1]) && has((r+d[1])*8+f+d[0], King) {
			out = append(out, (r+d[1])*8+f+d[0])
		}
	}
	ray := func(dirs [4][2]int, k int8) {
		for _, d := range dirs {
			ff, rr := f+d[0], r+d[1]
			for on(ff, rr) {
				sq := rr*8 + ff
				if s.occ[sq] {
					if has(sq, k) || has(sq, Queen) {
						out = append(out, sq)
					}
					break
				}
				ff += d[0]
				rr += d[1]
			}
		}
	}
	ray(rookD, Rook)
	ray(bishopD, Bishop)
	return out
}

// gains returns the set of values the side to move can win by capturing on
// s.to (or stopping), where onSquare is the value of the man standing there.
func (s *seeState) gains(side int, onSquare int) map[int]bool {
	var buf [16]int
	att := s.attackers(side, buf[:0])
	if len(att) == 0 {
		return map[int]bool{0: true}
	}
	least := 1 << 30
	for _, a := range att {
		if v := SEEVal[kind(s.p.Sq[a])]; v < least {
			least = v
		}
	}
	if least == SEEVal[King] {
		// the king captures only when no enemy attacker remains
		var eb [16]int
		if len(s.attackers(side^1, eb[:0])) > 0 {
			return map[int]bool{0: true}
		}
	}
	res := map[int]bool{}
	for _, a := range att {
		if SEEVal[kind(s.p.Sq[a])] != least {
			continue
		}
		s.occ[a] = false
		for x := range s.gains(side^1, least) {
			res[max(0, onSquare-x)] = true
		}
		s.occ[a] = true
	}
	return res
}

// SEEValues returns the set of material balances of move m (a legal move of
// p) over all tie-break choices among equally valued least attackers.
func (p *Pos) SEEValues(m Move) []int {
	s := seeState{p: p, to: int(m.To)}
	for i := 0; i < 64; i++ {
		s.occ[i] = p.Sq[i] != 0
	}
	from, to := int(m.From), int(m.To)
	moved := kind(p.Sq[from])
	gain := SEEVal[kind(p.Sq[to])]
	s.occ[from] = false
	if moved == Pawn && to == int(p.Ep) && p.Sq[to] == 0 && file(from) != file(to) {
		victim := rank(from)*8 + file(to)
		s.occ[victim] = false
		gain = SEEVal[Pawn]
	}
	onSquare := SEEVal[moved]
	if m.Promo != 0 {
		gain += SEEVal[m.Promo] - SEEVal[Pawn]
		// the exchange value of the promoted man as the property's anchor counts it
		onSquare = SEEVal[Pawn] + SEEVal[m.Promo] - SEEVal[Pawn]
	}
	s.occ[to] = true
	var out []int
	for x := range s.gains(int(p.Stm)^1, onSquare) {
		out = append(out, gain-x)
	}
	return out
}
