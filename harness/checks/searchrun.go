package checks

import (
	"bytes"
	"fmt"
	"strconv"
	"strings"

	"github.com/paulsonkoly/chess-3/board"
	. "github.com/paulsonkoly/chess-3/chess"
	"github.com/paulsonkoly/chess-3/move"
	"github.com/paulsonkoly/chess-3/search"

	"verif/eng"
	"verif/refchess"
)

// searchReq describes one call of search.Go.
type searchReq struct {
	FEN       string   `json:"fen"`
	Moves     []string `json:"moves,omitempty"` // game history played from FEN before the search
	Depth     int      `json:"depth"`
	Nodes     int      `json:"nodes"`      // hard budget, -1 = none
	SoftNodes int      `json:"soft_nodes"` // soft limit, -1 = none
	TT        int      `json:"tt_bytes"`
	// NoCounters: do not pass WithCounters (the way the UCI driver and datagen call the search); the node count is
	// then read from the last reported line.
	NoCounters bool `json:"no_counters,omitempty"`
	// NoOutput: pass WithOutput(nil) (the way datagen calls the search): nothing is reported.
	NoOutput bool `json:"no_output,omitempty"`
}

type infoLine struct {
	Depth    int
	Complete bool // has score and pv (a completed iteration); false = the abort line
	Nodes    int
	PV       []string
	Score    string
}

type searchRes struct {
	Score  Score
	Move   move.Move
	Ponder move.Move
	Nodes  int
	Infos  []infoLine
	Out    string
}

// aborted reports whether the search printed its abort line.
func (r *searchRes) aborted() bool {
	return len(r.Infos) > 0 && !r.Infos[len(r.Infos)-1].Complete
}

func parseInfo(out string) ([]infoLine, error) {
	var res []infoLine
	for _, ln := range strings.Split(strings.TrimRight(out, "\n"), "\n") {
		if ln == "" {
			continue
		}
		f := strings.Fields(ln)
		if len(f) < 5 || f[0] != "info" || f[1] != "depth" {
			return nil, fmt.Errorf("unexpected output line %q", ln)
		}
		var il infoLine
		var err error
		if il.Depth, err = strconv.Atoi(f[2]); err != nil {
			return nil, fmt.Errorf("bad depth in %q", ln)
		}
		i := 3
		if f[i] == "score" {
			il.Complete = true
			il.Score = f[i+1] + " " + f[i+2]
			i += 3
		}
		if i+1 >= len(f) || f[i] != "nodes" {
			return nil, fmt.Errorf("no nodes in %q", ln)
		}
		if il.Nodes, err = strconv.Atoi(f[i+1]); err != nil {
			return nil, fmt.Errorf("bad nodes in %q", ln)
		}
		for j := i + 2; j < len(f); j++ {
			if f[j] == "pv" {
				il.PV = f[j+1:]
				break
			}
		}
		res = append(res, il)
	}
	return res, nil
}

// history is a game: a start position and the moves played, in both worlds.
type history struct {
	Root refchess.Pos
	Pos  refchess.Pos
	Keys []refchess.Key
	B    *board.Board
}

func newHistory(fen string, moves []string) (*history, error) {
	p, err := refchess.ParseFEN(fen)
	if err != nil {
		return nil, err
	}
	h := &history{Root: p, Pos: p, B: eng.Load(&p), Keys: []refchess.Key{p.Key()}}
	for _, s := range moves {
		if err := h.play(s); err != nil {
			return nil, err
		}
	}
	return h, nil
}

func (h *history) play(s string) error {
	var buf [256]refchess.Move
	for _, m := range h.Pos.LegalMoves(buf[:0]) {
		if m.String() == s {
			h.B.MakeMove(move.Move(m.Enc()))
			h.Pos = h.Pos.Make(m)
			h.Keys = append(h.Keys, h.Pos.Key())
			return nil
		}
	}
	return fmt.Errorf("move %s is not legal in %s", s, h.Pos.FEN())
}

// final reports whether the current position is final: no legal move, clock >= 100, third occurrence.
func (h *history) final() (bool, string) {
	if !h.Pos.HasLegalMove() {
		if h.Pos.InCheck(int(h.Pos.Stm)) {
			return true, "checkmate"
		}
		return true, "stalemate"
	}
	if h.Pos.Half >= 100 {
		return true, "clock"
	}
	if c10Count(h.Keys) >= 3 {
		return true, "third occurrence"
	}
	return false, ""
}

func runSearch(s *search.Search, b *board.Board, req searchReq) searchRes {
	var out bytes.Buffer
	var cnt search.Counters
	opts := []search.Option{search.WithOutput(&out), search.WithDepth(Depth(req.Depth))}
	if req.NoOutput {
		opts[0] = search.WithOutput(nil)
	}
	if !req.NoCounters {
		opts = append(opts, search.WithCounters(&cnt))
	}
	if req.Nodes >= 0 {
		opts = append(opts, search.WithNodes(req.Nodes))
	}
	if req.SoftNodes >= 0 {
		opts = append(opts, search.WithSoftNodes(req.SoftNodes))
	}
	sc, mv, pm := s.Go(b, opts...)
	res := searchRes{Score: sc, Move: mv, Ponder: pm, Nodes: cnt.Nodes, Out: out.String()}
	res.Infos, _ = parseInfo(res.Out)
	if req.NoCounters && len(res.Infos) > 0 {
		res.Nodes = res.Infos[len(res.Infos)-1].Nodes
	}
	return res
}

// judgeMove is the C06 oracle for one result.
func judgeMove(h *history, req searchReq, res *searchRes) (string, string) {
	var buf [256]refchess.Move
	legal := h.Pos.LegalMoves(buf[:0])
	fin, why := h.final()
	if res.Move == 0 {
		if !fin {
			return "null-move-on-live-root", fmt.Sprintf("search returned the null move although the root is not final (%d legal moves, clock %d)", len(legal), h.Pos.Half)
		}
	} else {
		ok := false
		for _, m := range legal {
			if m.Enc() == uint16(res.Move) {
				ok = true
			}
		}
		if !ok {
			return "illegal-move", fmt.Sprintf("search returned %s, which is not legal in the root", eng.Name(uint16(res.Move)))
		}
	}
	if fin && !res.aborted() {
		// ran to completion on a final root
		mate := why == "checkmate" || (!h.Pos.HasLegalMove() && h.Pos.InCheck(int(h.Pos.Stm)))
		if res.Move != 0 || !(res.Score == 0 || (mate && res.Score == -Inf)) {
			return "final-root-result", fmt.Sprintf("completed search on a final root (%s) returned move %s score %d", why, eng.Name(uint16(res.Move)), res.Score)
		}
	}
	if req.Nodes >= 0 && res.Nodes > req.Nodes {
		return "budget-exceeded", fmt.Sprintf("hard budget %d nodes, %d counted", req.Nodes, res.Nodes)
	}
	return "", ""
}

// judgePV is the C07 oracle for one result.
func judgePV(h *history, res *searchRes) (string, string) {
	if res.Infos == nil && res.Out != "" {
		return "output-format", "info output not understood: " + firstLines(res.Out, 3)
	}
	lastDepth, lastNodes := -1, -1
	var lastPV []string
	for i, il := range res.Infos {
		if il.Depth <= lastDepth {
			return "depth-order", fmt.Sprintf("info line %d reports depth %d after depth %d", i, il.Depth, lastDepth)
		}
		if il.Nodes < lastNodes {
			return "nodes-order", fmt.Sprintf("info line %d reports %d nodes after %d", i, il.Nodes, lastNodes)
		}
		lastDepth, lastNodes = il.Depth, il.Nodes
		if len(il.PV) == 0 {
			continue
		}
		lastPV = il.PV
		p := h.Pos
		for j, ms := range il.PV {
			var buf [256]refchess.Move
			found := false
			for _, m := range p.LegalMoves(buf[:0]) {
				if m.String() == ms {
					p = p.Make(m)
					found = true
					break
				}
			}
			if !found {
				return "illegal-pv", fmt.Sprintf("depth %d pv %v: move %d (%s) is not legal in %s", il.Depth, il.PV, j+1, ms, p.FEN())
			}
		}
	}
	if lastPV != nil {
		if res.Move.String() != lastPV[0] {
			return "move-not-pv-head", fmt.Sprintf("returned %s but the most recent reported variation starts with %s", res.Move, lastPV[0])
		}
	}
	if res.Ponder != 0 {
		if res.Move == 0 {
			return "ponder-without-move", "ponder move given with a null best move"
		}
		p := h.Pos
		var buf [256]refchess.Move
		ok := false
		for _, m := range p.LegalMoves(buf[:0]) {
			if m.Enc() == uint16(res.Move) {
				p = p.Make(m)
				ok = true
				break
			}
		}
		if ok {
			ok = false
			for _, m := range p.LegalMoves(buf[:0]) {
				if m.Enc() == uint16(res.Ponder) {
					ok = true
				}
			}
			if !ok {
				return "illegal-ponder", fmt.Sprintf("ponder move %s is not legal after %s", eng.Name(uint16(res.Ponder)), res.Move)
			}
		}
	}
	return "", ""
}
