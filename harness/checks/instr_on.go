//go:build vinstr

package checks

// Instrumented reports whether this binary was built with the vsched overlay.
const Instrumented = true
