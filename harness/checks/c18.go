package checks

import (
	"encoding/json"
	"fmt"
	"sort"
	"sync/atomic"

	"github.com/paulsonkoly/chess-3/board"
	. "github.com/paulsonkoly/chess-3/chess"
	"github.com/paulsonkoly/chess-3/heur"
	"github.com/paulsonkoly/chess-3/move"

	"verif/eng"
	"verif/ev"
	"verif/refchess"
	"verif/universe"
)

// C18 — SEE equals the capture-sequence minimax it approximates.

type c18Case struct {
	FEN       string `json:"fen"`
	Move      string `json:"move"`
	Threshold int    `json:"threshold"`
}

// c18Judge checks one (position, move) over all interesting thresholds.
// It returns the first offending threshold and a message, or ok.
func c18Judge(b *board.Board, p *refchess.Pos, m refchess.Move, ties *atomic.Int64) (int, string, bool) {
	vals := p.SEEValues(m)
	lo, hi := vals[0], vals[0]
	for _, v := range vals {
		lo, hi = min(lo, v), max(hi, v)
	}
	if lo != hi && ties != nil {
		ties.Add(1)
	}
	ths := make([]int, 0, 64)
	for _, v := range vals {
		ths = append(ths, v-1, v, v+1)
	}
	for t := -1000; t <= 1000; t += 50 {
		ths = append(ths, t)
	}
	sort.Ints(ths)
	em := move.Move(m.Enc())
	prev := true
	prevT := 0
	for i, t := range ths {
		if i > 0 && t == ths[i-1] {
			continue
		}
		got := heur.SEE(b, em, Score(t))
		if got && !prev {
			return t, fmt.Sprintf("not monotone: false at threshold %d but true at %d", prevT, t), false
		}
		if lo >= t && !got {
			return t, fmt.Sprintf("exchange balance %v >= threshold %d but SEE says false", vals, t), false
		}
		if hi < t && got {
			return t, fmt.Sprintf("exchange balance %v < threshold %d but SEE says true", vals, t), false
		}
		prev, prevT = got, t
	}
	return 0, "", true
}

func c18Replay(class string, raw json.RawMessage) (bool, string) {
	var c c18Case
	if err := json.Unmarshal(raw, &c); err != nil {
		return false, err.Error()
	}
	p := refchess.MustFEN(c.FEN)
	b := eng.Load(&p)
	var buf [256]refchess.Move
	for _, m := range p.LegalMoves(buf[:0]) {
		if m.String() == c.Move {
			if _, msg, ok := c18Judge(b, &p, m, nil); !ok {
				return true, c.FEN + " " + c.Move + ": " + msg
			}
			return false, "SEE agrees with the minimax"
		}
	}
	return false, "move not legal"
}

func init() {
	register(&Check{ID: "C18", Level: "model_checking", Run: runC18, Replay: c18Replay})
}

func runC18(r *ev.Run) {
	var pos, moves, captures, ties, eps, promos atomic.Int64
	handleTo := func(b *board.Board, p *refchess.Pos, onlyTo int) {
		pos.Add(1)
		var buf [256]refchess.Move
		for _, m := range p.LegalMoves(buf[:0]) {
			if onlyTo >= 0 && int(m.To) != onlyTo {
				continue
			}
			moves.Add(1)
			if p.Sq[m.To] != 0 {
				captures.Add(1)
			}
			if m.Promo != 0 {
				promos.Add(1)
			}
			if p.Sq[m.To] == 0 && m.To == p.Ep && (p.Sq[m.From] == 1 || p.Sq[m.From] == -1) && (m.From&7) != (m.To&7) {
				eps.Add(1)
			}
			if t, msg, ok := c18Judge(b, p, m, &ties); !ok {
				kind := "quiet"
				if p.Sq[m.To] != 0 {
					kind = "capture"
				}
				if m.Promo != 0 {
					kind += "-promotion"
				}
				r.Fail("see/"+kind, c18Case{FEN: p.FEN(), Move: m.String(), Threshold: t}, "%s %s: %s", p.FEN(), m, msg)
			}
		}
	}

	handle := func(b *board.Board, p *refchess.Pos) { handleTo(b, p, -1) }

	// U2: dense positions
	roots := universe.AllRoots()
	depth := ev.Pick(r, 2, 3)
	var sc atomic.Int64
	ev.Parallel(len(roots), func(worker, item int) {
		if r.Expired() {
			return
		}
		root := roots[item]
		d := depth
		var buf [256]refchess.Move
		if n := len(root.Pos.LegalMoves(buf[:0])); n > 32 && !r.Thorough() {
			d = depth - 1
		}
		w := &universe.Walker{}
		w.Visit = func(w *universe.Walker, p *refchess.Pos, left int) bool {
			// the engine board as reached by play has the normalised ep state
			n := p.Normalized()
			handle(w.B, &n)
			if sc.Add(1)%60000 == 1 {
				r.Sample(map[string]any{"root": root.FEN, "moves": w.PathStrings(), "legal_moves_x_thresholds": "all"})
			}
			return !r.Expired()
		}
		w.Walk(&root.Pos, eng.Load(&root.Pos), d)
	})

	// U1: the en-passant bearing positions of KPkp (+ full classes in the thorough tier)
	type worker struct{ ld eng.Loader }
	forClasses(r, parseClasses([]string{"KPkp", "KPPk", "Kkpp"}), universe.Opts{OnlySpecial: true, NoRights: true}, func() *worker { return &worker{} }, func(w *worker, p *refchess.Pos) {
		handle(w.ld.Load(p), p)
	})
	if r.Thorough() {
		classes := parseClasses([]string{"KQkr", "KRkb", "KQkp", "KBkn"})
		r.Set("classes", classNames(classes))
		forClasses(r, classes, universe.Opts{NoRights: true}, func() *worker { return &worker{} }, func(w *worker, p *refchess.Pos) {
			handle(w.ld.Load(p), p)
		})
	}

	// exchange families: a target square, men on its rays (two deep: batteries, x-rays, blockers), knights, pawns
	fam := c18ExchangeFamily(r, handleTo)
	r.Set("exchange_family_positions", fam)

	r.States.Store(pos.Load())
	r.Transitions.Store(moves.Load())
	r.Validated.Store(moves.Load())
	r.Evals.Store(moves.Load())
	r.Nontrivial.Store(captures.Load() + eps.Load() + promos.Load())
	r.Set("distinct_outcomes", map[string]int64{"captures": captures.Load(), "en_passant": eps.Load(), "promotions": promos.Load(), "moves_whose_balance_depends_on_tie_break": ties.Load()})
	r.Set("rule", "every legal move of every tree node below the root corpus, of every position of the listed classes and of the exchange family (capture, quiet and en-passant set-ups: every assignment of up to 4 (thorough 5) men to the slots two deep on the eight rays of the target plus knight squares, only moves onto the target judged) x thresholds {v-1,v,v+1 for every achievable balance v} + {-1000..1000 step 50}; oracle: plain-recursion minimax over capture sequences with every choice among equally valued least attackers; SEE must be true if min balance >= t, false if max balance < t, and monotone in t; non-trivial = captures, en-passant captures and promotions")
}

// c18ExchangeFamily enumerates, for three set-ups, every assignment of up to k
// men to the slots around a target square T:
//
//	capture: T=d5 holds a black man, White (and mirrored: Black) captures on it;
//	quiet:   T=d5 is empty, a man moves onto the attacked square;
//	ep:      black pawn d5 has just double-pushed (target d6), white pawn e5
//	         captures en passant; slots include the squares behind the captured pawn.
//
// Slots: distance 1 and 2 along the eight rays of T (line slots take R, Q and a
// blocking N; diagonal slots take B, Q, P and a blocking N) and four knight squares.
// Only moves whose destination is T are judged (all thresholds).
func c18ExchangeFamily(r *ev.Run, handleTo func(b *board.Board, p *refchess.Pos, onlyTo int)) int64 {
	type slot struct {
		sq  int
		men []int8
	}
	type setup struct {
		name  string
		t     int
		fixed map[int]int8
		ep    int8
		avoid map[int]bool
		extra []int // additional line slots (behind the ep pawn)
	}
	setups := []setup{
		{name: "capture-pawn", t: 35, fixed: map[int]int8{35: -1}, ep: -1},
		{name: "capture-rook", t: 35, fixed: map[int]int8{35: -4}, ep: -1},
		{name: "quiet", t: 35, fixed: map[int]int8{}, ep: -1},
		{name: "en-passant", t: 43, fixed: map[int]int8{35: -1, 36: 1}, ep: 43, avoid: map[int]bool{51: true, 43: true}, extra: []int{27, 19}},
	}
	k := ev.Pick(r, 4, 5)
	lineMen := []int8{4, 5, 2, -4, -5, -2}
	diagMen := []int8{3, 5, 1, 2, -3, -5, -1, -2}
	knightMen := []int8{2, -2}
	var count atomic.Int64
	type job struct {
		su    setup
		slots []slot
		first int
		man   int8
	}
	var jobs []job
	for _, su := range setups {
		var slots []slot
		tf, tr := su.t%8, su.t/8
		add := func(sq int, men []int8) {
			if sq < 0 || sq > 63 || su.avoid[sq] {
				return
			}
			if _, fixed := su.fixed[sq]; fixed || sq == 7 || sq == 56 {
				return
			}
			slots = append(slots, slot{sq, men})
		}
		for _, d := range [][2]int{{1, 0}, {-1, 0}, {0, 1}, {0, -1}} {
			for dist := 1; dist <= 2; dist++ {
				f, rr := tf+d[0]*dist, tr+d[1]*dist
				if f >= 0 && f < 8 && rr >= 0 && rr < 8 {
					add(rr*8+f, lineMen)
				}
			}
		}
		for _, e := range su.extra {
			add(e, lineMen)
		}
		for _, d := range [][2]int{{1, 1}, {1, -1}, {-1, 1}, {-1, -1}} {
			for dist := 1; dist <= 2; dist++ {
				f, rr := tf+d[0]*dist, tr+d[1]*dist
				if f >= 0 && f < 8 && rr >= 0 && rr < 8 {
					add(rr*8+f, diagMen)
				}
			}
		}
		for _, d := range [][2]int{{1, 2}, {-2, 1}, {2, -1}, {-1, -2}} {
			f, rr := tf+d[0], tr+d[1]
			if f >= 0 && f < 8 && rr >= 0 && rr < 8 {
				add(rr*8+f, knightMen)
			}
		}
		for si, sl := range slots {
			for _, mn := range sl.men {
				jobs = append(jobs, job{su, slots, si, mn})
			}
		}
		jobs = append(jobs, job{su, slots, -1, 0}) // the assignment with no man at all
	}
	mirrorToo := r.Thorough()
	ev.Parallel(len(jobs), func(worker, item int) {
		if r.Expired() {
			return
		}
		j := jobs[item]
		var ld eng.Loader
		var p refchess.Pos
		p.Ep = j.su.ep
		p.Full = 1
		p.Sq[7] = refchess.King   // h1
		p.Sq[56] = -refchess.King // a8
		for sq, mn := range j.su.fixed {
			p.Sq[sq] = mn
		}
		visit := func() {
			if !p.Valid() {
				return
			}
			count.Add(1)
			handleTo(ld.Load(&p), &p, j.su.t)
			if mirrorToo && j.su.ep < 0 {
				m := p.Mirror()
				handleTo(ld.Load(&m), &m, j.su.t^56)
			}
		}
		var rec func(start, left int)
		rec = func(start, left int) {
			visit()
			if left == 0 {
				return
			}
			for si := start; si < len(j.slots); si++ {
				sq := j.slots[si].sq
				for _, mn := range j.slots[si].men {
					if (mn == 1 || mn == -1) && (sq < 8 || sq >= 56) {
						continue
					}
					p.Sq[sq] = mn
					rec(si+1, left-1)
					p.Sq[sq] = 0
				}
			}
		}
		if j.first < 0 {
			visit()
			return
		}
		sq := j.slots[j.first].sq
		if (j.man == 1 || j.man == -1) && (sq < 8 || sq >= 56) {
			return
		}
		p.Sq[sq] = j.man
		// the first man is the lowest-indexed slot used: the rest go to higher slots
		recFrom := j.first + 1
		visit()
		if k > 1 {
			for si := recFrom; si < len(j.slots); si++ {
				sq2 := j.slots[si].sq
				for _, mn := range j.slots[si].men {
					if (mn == 1 || mn == -1) && (sq2 < 8 || sq2 >= 56) {
						continue
					}
					p.Sq[sq2] = mn
					rec(si+1, k-2)
					p.Sq[sq2] = 0
				}
			}
		}
	})
	return count.Load()
}
