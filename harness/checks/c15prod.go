package checks

import (
	"encoding/json"
	"fmt"
	"sync/atomic"

	"github.com/paulsonkoly/chess-3/board"
	. "github.com/paulsonkoly/chess-3/chess"
	"github.com/paulsonkoly/chess-3/move"
	"github.com/paulsonkoly/chess-3/transp"

	"verif/ev"
	"verif/ttmodel"
)

type c15Prod struct {
	Product string          `json:"product"`
	Stores  []ttmodel.Store `json:"stores,omitempty"`
	Ply     int             `json:"probe_ply,omitempty"`
	Word    uint64          `json:"word,omitempty"`
	Key     uint16          `json:"key,omitempty"`
}

func ttInsert(t *transp.Table, s ttmodel.Store) {
	t.Insert(board.Hash(s.Key), transp.Gen(s.Gen), Depth(s.Depth), Depth(s.Ply), move.Move(s.Move), Score(s.Value), transp.Type(s.Type))
}

// c15CheckStores applies stores to a fresh one-bucket table and the model and
// compares all stored keys at probe ply.
func c15CheckStores(t *transp.Table, stores []ttmodel.Store, ply int8, atMostOneEvicted bool) string {
	t.Clear()
	m := ttmodel.New()
	for _, s := range stores {
		ttInsert(t, s)
		m.Insert(0, s)
	}
	missing := 0
	for i, s := range stores {
		dupe := false
		for _, s2 := range stores[:i] {
			if ttmodel.Sig(s2.Key) == ttmodel.Sig(s.Key) {
				dupe = true
			}
		}
		if dupe {
			continue
		}
		rec, _ := m.Get(0, s.Key)
		e, ok := t.LookUp(board.Hash(s.Key))
		if !ok {
			missing++
			if !atMostOneEvicted || i == len(stores)-1 {
				return fmt.Sprintf("key %016x misses after the stores; model has %v", s.Key, rec)
			}
			continue
		}
		if int8(e.Depth()) != rec.Depth || uint8(e.Type()) != rec.Type || uint16(e.Move) != rec.Move {
			return fmt.Sprintf("key %016x returns depth %d type %d move %d, model has %v", s.Key, e.Depth(), e.Type(), e.Move, rec)
		}
		if want, alt := rec.Expected(ply); int16(e.Value(Depth(ply))) != want && int16(e.Value(Depth(ply))) != alt {
			return fmt.Sprintf("key %016x probed at ply %d returns %d, expected %d (%v)", s.Key, ply, e.Value(Depth(ply)), want, rec)
		}
	}
	if missing > 1 {
		return fmt.Sprintf("%d keys became unreachable by one overflow store", missing)
	}
	return ""
}

func c15ReplayProduct(class string, raw json.RawMessage) (bool, string) {
	var c c15Prod
	if err := json.Unmarshal(raw, &c); err != nil {
		return false, err.Error()
	}
	if c.Product == "match64" {
		if msg := c15Match(c.Word, c.Key); msg != "" {
			return true, msg
		}
		return false, "lane matching correct"
	}
	t := transp.New(32)
	if msg := c15CheckStores(t, c.Stores, int8(c.Ply), c.Product == "overflow"); msg != "" {
		return true, msg
	}
	return false, "stores behave as the model"
}

func c15Match(w uint64, key uint16) string {
	ix, ok := transp.VerifMatch64(w, key)
	want := false
	for l := 0; l < 4; l++ {
		if uint16(w>>(16*l)) == key {
			want = true
		}
	}
	if ok != want {
		return fmt.Sprintf("match64(%016x, %04x): found=%v but a matching lane exists=%v", w, key, ok, want)
	}
	if ok && (ix < 0 || ix > 3 || uint16(w>>(16*ix)) != key) {
		return fmt.Sprintf("match64(%016x, %04x) = lane %d, which does not hold the key", w, key, ix)
	}
	return ""
}

func c15Products(r *ev.Run) int64 {
	var n atomic.Int64
	key := c15Keys[0]
	// P1: mate re-basing: every value x store ply x probe ply
	ev.Parallel(20001, func(worker, item int) {
		v := int16(item - 10000)
		t := transp.New(32)
		for sp := int8(0); sp < 64; sp++ {
			st := ttmodel.Store{Key: key, Gen: 0, Depth: 5, Ply: sp, Move: mvA, Value: v, Type: ttmodel.Exact}
			t.Clear()
			ttInsert(t, st)
			e, ok := t.LookUp(board.Hash(key))
			if !ok {
				r.Fail("product/rebase-miss", c15Prod{Product: "rebase", Stores: []ttmodel.Store{st}}, "value %d stored at ply %d: probe misses", v, sp)
				return
			}
			rec := ttmodel.Rec{Value: v, StorePly: sp}
			for pp := int8(0); pp < 64; pp++ {
				n.Add(1)
				if want, alt := rec.Expected(pp); int16(e.Value(Depth(pp))) != want && int16(e.Value(Depth(pp))) != alt {
					r.Fail("product/rebase", c15Prod{Product: "rebase", Stores: []ttmodel.Store{st}, Ply: int(pp)}, "value %d stored at ply %d probed at ply %d returns %d, expected %d", v, sp, pp, e.Value(Depth(pp)), want)
					return
				}
			}
		}
	})
	// P2: two stores under one key: all depth pairs x types x generations x moves
	gens := [][2]uint8{{0, 0}, {0, 1}, {255, 0}, {255, 255}, {7, 7}}
	ev.Parallel(64, func(worker, item int) {
		t := transp.New(32)
		d1 := int8(item)
		for d2 := int8(0); d2 < 64; d2++ {
			for t1 := uint8(0); t1 < 3; t1++ {
				for t2 := uint8(0); t2 < 3; t2++ {
					for _, g := range gens {
						for _, m1 := range []uint16{0, mvA} {
							for _, m2 := range []uint16{0, mvB} {
								n.Add(1)
								ss := []ttmodel.Store{
									{Key: key, Gen: g[0], Depth: d1, Ply: 3, Move: m1, Value: 11, Type: t1},
									{Key: c15Keys[6], Gen: g[1], Depth: d2, Ply: 9, Move: m2, Value: -9950, Type: t2}, // alias of the same bucket+signature
								}
								if msg := c15CheckStores(t, ss, 4, false); msg != "" {
									r.Fail("product/two-stores", c15Prod{Product: "two-stores", Stores: ss, Ply: 4}, "first %+v then %+v: %s", ss[0], ss[1], msg)
									return
								}
							}
						}
					}
				}
			}
		}
	})
	// P3: bucket overflow: four records with depth/generation patterns, then a fifth
	depths := []int8{0, 1, 5, 63}
	gs := []uint8{0, 1, 255}
	ev.Parallel(len(depths)*len(depths)*len(depths)*len(depths), func(worker, item int) {
		ds := [4]int8{depths[item%4], depths[item/4%4], depths[item/16%4], depths[item/64%4]}
		for gi := 0; gi < 81; gi++ {
			gg := [4]uint8{gs[gi%3], gs[gi/3%3], gs[gi/9%3], gs[gi/27%3]}
			for _, cur := range gs {
				for _, d5 := range []int8{0, 63} {
					n.Add(1)
					var ops []c15Op
					for i := 0; i < 4; i++ {
						ops = append(ops, c15Op{Kind: "insert", Store: ttmodel.Store{Key: c15Keys[i], Gen: gg[i], Depth: ds[i], Ply: 0, Move: mvA, Value: int16(i), Type: ttmodel.Exact}})
					}
					ops = append(ops, c15Op{Kind: "insert", Store: ttmodel.Store{Key: c15Keys[4], Gen: cur, Depth: d5, Ply: 0, Move: mvB, Value: 99, Type: ttmodel.Lower}})
					// judged step by step: every store may displace at most one other record
					if res := c15Run(32, ops); res.class != "" {
						r.Fail("product/overflow/"+res.class, c15Case{Size: 32, Ops: ops}, "%s", res.msg)
						return
					}
				}
			}
		}
	})
	// P4: lane matching
	lanes6 := []uint16{0x0000, 0x0001, 0x8000, 0x7fff, 0xffff, 0xA001}
	ev.Parallel(1296, func(worker, item int) {
		w := uint64(lanes6[item%6]) | uint64(lanes6[item/6%6])<<16 | uint64(lanes6[item/36%6])<<32 | uint64(lanes6[item/216%6])<<48
		for k := 0; k < 65536; k++ {
			n.Add(1)
			if msg := c15Match(w, uint16(k)); msg != "" {
				r.Fail("product/match64", c15Prod{Product: "match64", Word: w, Key: uint16(k)}, "%s", msg)
				return
			}
		}
	})
	lanes12 := []uint16{0x0000, 0x0001, 0x0002, 0x00ff, 0x0100, 0x7fff, 0x8000, 0x8001, 0xfffe, 0xffff, 0xA001, 0xB002}
	ev.Parallel(12*12*12*12, func(worker, item int) {
		w := uint64(lanes12[item%12]) | uint64(lanes12[item/12%12])<<16 | uint64(lanes12[item/144%12])<<32 | uint64(lanes12[item/1728%12])<<48
		for _, b := range lanes12 {
			for d := -1; d <= 1; d++ {
				n.Add(1)
				if msg := c15Match(w, b+uint16(d)); msg != "" {
					r.Fail("product/match64", c15Prod{Product: "match64", Word: w, Key: b + uint16(d)}, "%s", msg)
					return
				}
			}
		}
	})
	return n.Load()
}
