package checks

import (
	"bytes"
	"encoding/json"
	"fmt"
	"strings"
	"sync/atomic"

	"github.com/paulsonkoly/chess-3/board"
	. "github.com/paulsonkoly/chess-3/chess"
	"github.com/paulsonkoly/chess-3/move"
	"github.com/paulsonkoly/chess-3/search"
	"github.com/paulsonkoly/chess-3/uci"

	"verif/eng"
	"verif/ev"
	"verif/refchess"
	"verif/universe"
)

// C02 — playing a move produces the successor position the rules prescribe.

type c02Case struct {
	FEN   string   `json:"fen"`
	Moves []string `json:"moves"`
	Via   string   `json:"via"` // "api", "uci" or "uci-session"
	// Before: the move list of the `position startpos` command sent to the same driver just before (uci-session)
	Before []string `json:"before,omitempty"`
	// Command: the exact text of the position command (uci; white space between tokens varies)
	Command string `json:"command,omitempty"`
}

// nullSearch is a Search for drivers that never search.
type nullSearch struct{}

func (nullSearch) Go(*board.Board, ...search.Option) (Score, move.Move, move.Move) { return 0, 0, 0 }
func (nullSearch) Clear()                                                          {}
func (nullSearch) ResizeTT(int)                                                    {}

// runDriver feeds script to a fresh driver (mock search) and returns stdout, stderr.
func runDriver(script string, s uci.Search) (string, string) {
	var out, errb bytes.Buffer
	d := uci.NewDriver(uci.WithInput(strings.NewReader(script)), uci.WithOutput(&out), uci.WithError(&errb), uci.WithSearch(s))
	d.Run()
	return out.String(), errb.String()
}

// c02Expect is the FEN the rules prescribe after playing ms from p, with the
// en-passant field printed iff a legal en-passant capture exists.
func c02Expect(p refchess.Pos, ms []refchess.Move) string {
	for _, m := range ms {
		p = p.Make(m)
	}
	n := p.Normalized()
	return n.FEN()
}

// c02Classify maps a disagreement to a failure class (matched against
// known_findings.json).
func c02Classify(got, want string, ref *refchess.Pos) string {
	g, w := strings.Fields(got), strings.Fields(want)
	if len(g) != 6 || len(w) != 6 {
		return "successor/malformed-fen"
	}
	var diff []string
	for i, name := range []string{"placement", "side", "rights", "ep", "halfmove", "fullmove"} {
		if g[i] != w[i] {
			diff = append(diff, name)
		}
	}
	cls := "successor/" + strings.Join(diff, "+")
	if len(diff) == 1 && diff[0] == "halfmove" && ref.Half >= 128 {
		return "successor/halfmove-clock-wraps-at-128"
	}
	return cls
}

func c02Replay(class string, raw json.RawMessage) (bool, string) {
	var c c02Case
	if err := json.Unmarshal(raw, &c); err != nil {
		return false, err.Error()
	}
	p := refchess.MustFEN(c.FEN)
	var ms []refchess.Move
	q := p
	for _, s := range c.Moves {
		var buf [256]refchess.Move
		found := false
		for _, m := range q.LegalMoves(buf[:0]) {
			if m.String() == s {
				ms = append(ms, m)
				q = q.Make(m)
				found = true
				break
			}
		}
		if !found {
			return false, "move " + s + " not legal in reference"
		}
	}
	want := c02Expect(p, ms)
	var got string
	if c.Via == "uci" {
		cmd := "position fen " + c.FEN + " moves " + strings.Join(c.Moves, " ")
		if c.Command != "" {
			cmd = c.Command
		}
		out, _ := runDriver(cmd+"\nfen\n", nullSearch{})
		got = strings.TrimSpace(out)
	} else if c.Via == "uci-session" {
		first := "position startpos"
		if len(c.Before) > 0 && c.Before[0] != "(first command)" {
			first += " moves " + strings.Join(c.Before, " ")
		}
		out, _ := runDriver(first+"\nposition startpos moves "+strings.Join(c.Moves, " ")+"\nfen\n", nullSearch{})
		got = strings.TrimSpace(out)
	} else {
		b := eng.Load(&p)
		for _, m := range ms {
			b.MakeMove(move.Move(m.Enc()))
		}
		got = b.FEN()
	}
	if got != want {
		return true, fmt.Sprintf("after %s %v: engine %q, rules %q", c.FEN, c.Moves, got, want)
	}
	return false, "engine and rules agree: " + got
}

func init() {
	register(&Check{ID: "C02", Level: "model_checking", Run: runC02, Replay: c02Replay})
}

func runC02(r *ev.Run) {
	var transitions, epSet, epSuppressed, castleLoss, promos, uciChains atomic.Int64

	// judge compares the engine board after the move with the successor the
	// rules prescribe.
	judge := func(b *board.Board, child *refchess.Pos, mk func() c02Case) {
		transitions.Add(1)
		n := child.Normalized()
		if child.Ep >= 0 {
			if n.Ep >= 0 {
				epSet.Add(1)
			} else {
				epSuppressed.Add(1)
			}
		}
		want := n.FEN()
		got := b.FEN()
		if got != want {
			c := mk()
			r.Fail(c02Classify(got, want, &n), c, "%s + %v: engine %q, rules %q", c.FEN, c.Moves, got, want)
		}
	}

	// --- U1: every legal move of every position of the classes ------------
	type worker struct {
		ld  eng.Loader
		buf [256]refchess.Move
	}
	var u1pos atomic.Int64
	u1 := func(classes []universe.Class) {
		forClasses(r, classes, universe.Opts{}, func() *worker { return &worker{} }, func(w *worker, p *refchess.Pos) {
			u1pos.Add(1)
			b := w.ld.Load(p)
			for _, m := range p.LegalMoves(w.buf[:0]) {
				child := p.Make(m)
				em := move.Move(m.Enc())
				rv := b.MakeMove(em)
				judge(b, &child, func() c02Case { return c02Case{FEN: p.FEN(), Moves: []string{m.String()}, Via: "api"} })
				if child.Castle != p.Castle {
					castleLoss.Add(1)
				}
				if m.Promo != 0 {
					promos.Add(1)
				}
				b.UndoMove(em, rv)
			}
		})
	}
	u1(universe.ThreeMan())

	// --- U2: chains below the root corpus, through the API and through UCI --
	roots := universe.AllRoots()
	depth := ev.Pick(r, 2, 3)
	uciDepth := 2
	var u2nodes atomic.Int64
	ev.Parallel(len(roots), func(worker, item int) {
		if r.Expired() {
			return
		}
		root := roots[item]
		b := eng.Load(&root.Pos)
		var script strings.Builder
		var expect []string
		var paths [][]string
		var cmds []string
		w := &universe.Walker{}
		w.Visit = func(w *universe.Walker, p *refchess.Pos, left int) bool {
			u2nodes.Add(1)
			if len(w.Path) > 0 {
				judge(w.B, p, func() c02Case { return c02Case{FEN: root.FEN, Moves: w.PathStrings(), Via: "api"} })
				if len(w.Path) <= uciDepth {
					ps := w.PathStrings()
					// white space between the tokens of a command is arbitrary: single blanks, doubled blanks, tabs in rotation
					cmd := fmt.Sprintf("position fen %s moves %s", root.FEN, strings.Join(ps, " "))
					switch len(expect) % 3 {
					case 1:
						cmd = "  " + strings.ReplaceAll(cmd, " ", "  ") + " "
					case 2:
						cmd = strings.ReplaceAll(cmd, " ", "\t")
					}
					fmt.Fprintf(&script, "%s\nfen\n", cmd)
					cmds = append(cmds, cmd)
					n := p.Normalized()
					expect = append(expect, n.FEN())
					paths = append(paths, ps)
					if root.FEN == StartPosFEN {
						// the other way of setting up a game
						fmt.Fprintf(&script, "position startpos moves %s\nfen\n", strings.Join(ps, " "))
						cmds = append(cmds, "position startpos moves "+strings.Join(ps, " "))
						expect = append(expect, n.FEN())
						paths = append(paths, ps)
					}
				}
				if len(w.Path) == 2 && u2nodes.Load()%40000 == 1 {
					r.Sample(map[string]any{"root": root.FEN, "moves": w.PathStrings(), "successor": w.B.FEN()})
				}
			}
			return !r.Expired()
		}
		w.Walk(&root.Pos, b, depth)
		// the same chains through a real driver: position fen F moves ... / fen
		out, _ := runDriver(script.String(), nullSearch{})
		lines := strings.Split(strings.TrimRight(out, "\n"), "\n")
		if len(expect) > 0 && len(lines) != len(expect) {
			r.Fail("uci/line-count", c02Case{FEN: root.FEN, Via: "uci"}, "driver printed %d fen lines for %d position commands below %s", len(lines), len(expect), root.FEN)
			return
		}
		for i := range expect {
			uciChains.Add(1)
			if lines[i] != expect[i] {
				p := refchess.MustFEN(expect[i])
				r.Fail("uci/"+c02Classify(lines[i], expect[i], &p), c02Case{FEN: root.FEN, Moves: paths[i], Via: "uci", Command: cmds[i]},
					"position fen %s moves %v: driver %q, rules %q", root.FEN, paths[i], lines[i], expect[i])
			}
		}
	})
	r.Set("u2_nodes", u2nodes.Load())
	r.Set("u2_depth", depth)
	r.Set("uci_chains", uciChains.Load())

	// --- U3: en-passant family: the only move played is the double push ----
	epFiles := ev.Pick(r, []int{int(r.Seed % 8), int((r.Seed + 3) % 8), int((r.Seed + 7) % 8)}, []int{0, 1, 2, 3, 4, 5, 6, 7})
	epExtras := ev.Pick(r, []int8{0, 3, 4, 5, -3, -4, -5}, []int8{0, 1, 2, 3, 4, 5, -1, -2, -3, -4, -5})
	epFam := epFamily(r, epFiles, epExtras, func(ld *eng.Loader, pos *refchess.Pos, mm refchess.Move, child *refchess.Pos) {
		b := ld.Load(pos)
		b.MakeMove(move.Move(mm.Enc()))
		judge(b, child, func() c02Case { return c02Case{FEN: pos.FEN(), Moves: []string{mm.String()}, Via: "api"} })
	})
	r.Set("ep_family_positions", epFam)

	// --- counter edges: long reversible lines (clock beyond 100, full-move numbers)
	c02CounterEdges(r, judge)

	// --- sessions: one driver receives many `position startpos moves ...` commands in a row (growing lists, lists of equal
	// length that deviate earlier, shorter lists), as a GUI does during a game, after a ponder miss or a take-back
	r.Set("startpos_session_commands", c02Sessions(r))

	// --- game histories of great length, through the API at every ply and through one `position startpos moves ...` line
	r.Set("long_game_plies", c02LongGames(r, judge))

	// --- seed-rotated 4-man classes last (cut by the internal deadline if need be)
	extra := parseClasses(seedFour(r, 0, 0, 10))
	r.Set("classes", append(classNames(universe.ThreeMan()), classNames(extra)...))
	u1(extra)
	r.Set("u1_positions", u1pos.Load())

	r.States.Store(u1pos.Load() + u2nodes.Load() + epFam)
	r.Transitions.Store(transitions.Load())
	r.Validated.Store(transitions.Load())
	r.Evals.Store(transitions.Load() + uciChains.Load())
	r.Nontrivial.Store(epSet.Load() + epSuppressed.Load() + castleLoss.Load() + promos.Load())
	r.Set("distinct_outcomes", map[string]int64{"ep_recorded": epSet.Load(), "ep_suppressed_no_legal_capture": epSuppressed.Load(), "rights_changed": castleLoss.Load(), "promotions": promos.Load()})
	r.Set("rule", "every (position, legal move) of the listed classes, every chain of the legal-move trees below the root corpus (API; depth<=2 also through `position fen .. moves ..`/`fen` on a real driver), the en-passant family (double push with 0-2 capturers, both kings, one extra man anywhere) and long reversible lines; oracle: engine FEN == reference successor FEN with ep printed iff a legal ep capture exists; non-trivial = double pushes, rights changes, promotions")
	r.Assume("reference model refchess validated against published perft counts")
}

// epFamily enumerates: white pawn on its home square of file f, black
// capturer(s) on rank 4 beside the target, both kings anywhere, one extra
// man of any kind and colour anywhere (or none); White plays the double
// push. Every such valid position is also mirrored (Black pushes).
func epFamily(r *ev.Run, files []int, extras []int8, visit func(ld *eng.Loader, pos *refchess.Pos, mm refchess.Move, child *refchess.Pos)) int64 {
	type job struct {
		f    int
		caps int // bit0: capturer on f-1, bit1: capturer on f+1
		wk   int
	}
	var jobs []job
	for _, f := range files {
		for caps := 1; caps <= 3; caps++ {
			if (caps&1 != 0 && f == 0) || (caps&2 != 0 && f == 7) {
				continue
			}
			for wk := 0; wk < 64; wk++ {
				jobs = append(jobs, job{f, caps, wk})
			}
		}
	}
	var count atomic.Int64
	ev.Parallel(len(jobs), func(worker, item int) {
		if r.Expired() {
			return
		}
		j := jobs[item]
		var ld eng.Loader
		var p refchess.Pos
		p.Ep = -1
		p.Full = 1
		from, to := 8+j.f, 24+j.f
		p.Sq[from] = refchess.Pawn
		if j.caps&1 != 0 {
			p.Sq[to-1] = -refchess.Pawn
		}
		if j.caps&2 != 0 {
			p.Sq[to+1] = -refchess.Pawn
		}
		if p.Sq[j.wk] != 0 || j.wk == from+8 || j.wk == to {
			return
		}
		p.Sq[j.wk] = refchess.King
		m := refchess.Move{From: int8(from), To: int8(to)}
		try := func(q *refchess.Pos) {
			for _, pos := range [2]refchess.Pos{*q, q.Mirror()} {
				pos := pos
				mm := m
				if pos.Stm == refchess.Black {
					mm = refchess.Move{From: m.From ^ 56, To: m.To ^ 56}
				}
				if !pos.Valid() {
					continue
				}
				child := pos.Make(mm)
				if child.InCheck(int(pos.Stm)) {
					continue // the push is illegal (own king exposed)
				}
				count.Add(1)
				visit(&ld, &pos, mm, &child)
			}
		}
		for bk := 0; bk < 64; bk++ {
			if p.Sq[bk] != 0 || bk == from+8 || bk == to {
				continue
			}
			p.Sq[bk] = -refchess.King
			for _, x := range extras {
				if x == 0 {
					try(&p)
					continue
				}
				for s := 0; s < 64; s++ {
					if p.Sq[s] != 0 || s == from+8 || s == to {
						continue
					}
					if (x == 1 || x == -1) && (s < 8 || s >= 56) {
						continue
					}
					p.Sq[s] = x
					try(&p)
					p.Sq[s] = 0
				}
			}
			p.Sq[bk] = 0
		}
	})
	return count.Load()
}

// c02CounterEdges plays long reversible shuffles (deterministic, complete
// for the given small alphabets) so that the half-move clock passes 100 and
// the full-move number grows, and compares after every ply.
func c02CounterEdges(r *ev.Run, judge func(b *board.Board, child *refchess.Pos, mk func() c02Case)) {
	roots := []string{
		"4k3/8/8/8/8/8/8/4K2R w K - 90 1",
		"r3k3/8/8/8/8/8/8/4K2N b q - 97 9998",
		"4k2n/8/8/8/8/8/8/N3K3 w - - 100 40",
	}
	plies := ev.Pick(r, 60, 200)
	for _, fen := range roots {
		p := refchess.MustFEN(fen)
		b := eng.Load(&p)
		var played []string
		for i := 0; i < plies; i++ {
			// deterministic choice: the i-th legal non-capturing non-pawn move in rotation
			var buf [256]refchess.Move
			lm := p.LegalMoves(buf[:0])
			var pick *refchess.Move
			for k := range lm {
				m := lm[(k+i*7)%len(lm)]
				piece := p.Sq[m.From]
				if piece < 0 {
					piece = -piece
				}
				if p.Sq[m.To] == 0 && piece != refchess.Pawn {
					pick = &m
					break
				}
			}
			if pick == nil {
				break
			}
			child := p.Make(*pick)
			b.MakeMove(move.Move(pick.Enc()))
			played = append(played, pick.String())
			snapshot := append([]string(nil), played...)
			judge(b, &child, func() c02Case { return c02Case{FEN: fen, Moves: snapshot, Via: "api"} })
			p = child
		}
	}
}

// c02LongGames plays deterministic legal games of a few thousand plies from the start position in which the
// half-move clock is kept small (a pawn move or a capture is chosen whenever the clock has reached 60, reversible
// moves otherwise): every successor is judged through the API, and at every 200th ply the whole history is
// given to a real driver as ONE `position startpos moves ...` line (several kilobytes long).
func c02LongGames(r *ev.Run, judge func(b *board.Board, child *refchess.Pos, mk func() c02Case)) int64 {
	var total atomic.Int64
	plies := ev.Pick(r, 1600, 5000)
	games := ev.Pick(r, 3, 8)
	ev.Parallel(games, func(worker, g int) {
		p := refchess.MustFEN(StartPosFEN)
		b := eng.Load(&p)
		var played []string
		rng := uint64(g)*0x9E3779B97F4A7C15 + uint64(r.Seed) + 1
		for i := 0; i < plies && !r.Expired(); i++ {
			var buf [256]refchess.Move
			lm := p.LegalMoves(buf[:0])
			if len(lm) == 0 {
				break
			}
			rng = rng*6364136223846793005 + 1442695040888963407
			start := int((rng >> 33) % uint64(len(lm)))
			var pick *refchess.Move
			for pass := 0; pass < 3 && pick == nil; pass++ {
				for k := range lm {
					m := lm[(start+k)%len(lm)]
					piece := p.Sq[m.From]
					if piece < 0 {
						piece = -piece
					}
					irreversible := piece == refchess.Pawn || p.Sq[m.To] != 0
					child := p.Make(m)
					var cb [256]refchess.Move
					if len(child.LegalMoves(cb[:0])) == 0 {
						continue // do not end the game
					}
					// pass 0: the kind of move the clock asks for, quiet pawn moves before captures; pass 1: any irreversible
					// move when one is due; pass 2: anything
					want := p.Half >= 60
					if pass == 0 && (irreversible != want || (want && p.Sq[m.To] != 0)) {
						continue
					}
					if pass == 1 && irreversible != want {
						continue
					}
					mm := m
					pick = &mm
					break
				}
			}
			if pick == nil || p.Half >= 120 {
				break
			}
			child := p.Make(*pick)
			b.MakeMove(move.Move(pick.Enc()))
			played = append(played, pick.String())
			total.Add(1)
			judge(b, &child, func() c02Case { return c02Case{FEN: StartPosFEN, Moves: append([]string(nil), played...), Via: "api"} })
			p = child
			if len(played)%200 == 0 {
				out, _ := runDriver("position startpos moves "+strings.Join(played, " ")+"\nfen\n", nullSearch{})
				n := p.Normalized()
				if got, want := strings.TrimRight(out, "\n"), n.FEN(); got != want {
					r.Fail("uci/long-history/"+c02Classify(got, want, &n), c02Case{FEN: StartPosFEN, Moves: append([]string(nil), played...), Via: "uci"},
						"position startpos with %d moves in one line (%d bytes): driver %q, rules %q", len(played), 6*len(played), got, want)
					return
				}
			}
		}
	})
	return total.Load()
}

// c02Sessions: all move lists of length <= 2 from the start position (plus a third ply for a slice of them) are sent to ONE
// driver as consecutive `position startpos moves ...` commands, in depth-first order, in reverse order and in an
// order that alternates between distant lists; after each the driver's position must be the prescribed one.
func c02Sessions(r *ev.Run) int64 {
	start := refchess.MustFEN(StartPosFEN)
	type item struct {
		moves []string
		fen   string
	}
	var items []item
	var rec func(p *refchess.Pos, path []string, depth int)
	rec = func(p *refchess.Pos, path []string, depth int) {
		n := p.Normalized()
		items = append(items, item{append([]string(nil), path...), n.FEN()})
		if depth == 0 {
			return
		}
		var buf [256]refchess.Move
		for i, m := range p.LegalMoves(buf[:0]) {
			if len(path) == 2 && i%5 != 0 {
				continue
			}
			c := p.Make(m)
			rec(&c, append(path, m.String()), depth-1)
		}
	}
	rec(&start, nil, ev.Pick(r, 2, 3))
	orders := [][]int{nil, nil, nil}
	for i := range items {
		orders[0] = append(orders[0], i)
		orders[1] = append(orders[1], len(items)-1-i)
		orders[2] = append(orders[2], (i*389)%len(items)) // 389 is coprime to any list length met here only by accident: duplicates are harmless
	}
	var total atomic.Int64
	ev.Parallel(len(orders), func(worker, o int) {
		var script strings.Builder
		for _, ix := range orders[o] {
			if len(items[ix].moves) == 0 {
				script.WriteString("position startpos\nfen\n")
			} else {
				fmt.Fprintf(&script, "position startpos moves %s\nfen\n", strings.Join(items[ix].moves, " "))
			}
		}
		out, _ := runDriver(script.String(), nullSearch{})
		lines := strings.Split(strings.TrimRight(out, "\n"), "\n")
		total.Add(int64(len(orders[o])))
		for k, ix := range orders[o] {
			got := ""
			if k < len(lines) {
				got = lines[k]
			}
			if got != items[ix].fen {
				prev := []string{"(first command)"}
				if k > 0 {
					prev = items[orders[o][k-1]].moves
				}
				p := refchess.MustFEN(items[ix].fen)
				r.Fail("uci/session/"+c02Classify(got, items[ix].fen, &p), c02Case{FEN: StartPosFEN, Moves: items[ix].moves, Via: "uci-session", Before: prev},
					"`position startpos moves %v` sent after `position startpos moves %v` on the same driver: driver %q, rules %q", items[ix].moves, prev, got, items[ix].fen)
				return
			}
		}
	})
	return total.Load()
}
