#!/usr/bin/env python3
"""Regenerates /verif/MANIFEST.json from the table below (kept in one place so the manifest stays valid)."""
import json, subprocess, os

CHECKS = {
 "C01": dict(cat="model_checking", design="§5 C01",
   technique="bounded exhaustive enumeration (closed material classes, legal-move trees, long reversible lines) of the real generator/make/undo in lock-step with an independent mailbox rules model; set comparison",
   text="Every valid position of all 3-man and seed-selected 4-man material classes (all placements x side x rights x en-passant targets) and every node of the legal-move trees below 233 roots (as played, as reloaded from FEN, with FIDE-style ep FEN), plus long reversible lines, has its engine playable set compared, as a set and for duplicates, with the legal moves of an independent reference model that is itself validated against 664 published perft counts.",
   note="Trusted: refchess (validated against published perft numbers in setup and in lock-step on every transition); small-scope hypothesis for geometries needing more than 4 men outside the root trees."),
 "C02": dict(cat="model_checking", design="§5 C02",
   technique="bounded exhaustive enumeration of (position, legal move) pairs and move chains on the real MakeMove and through a real uci.Driver, lock-step with the reference model; complete en-passant family",
   text="Every (position, legal move) of the classes, every chain of the trees below the root corpus (API, and depth<=2 through `position fen .. moves ..`/`fen` on a real driver), the complete en-passant family (double push x 0-2 capturers x both kings x one extra man anywhere, both colours) long reversible lines, 1600-ply games handed to a driver in one line, sessions of consecutive `position startpos moves` commands on one driver, white space between tokens rotating through blanks/doubled blanks/tabs: engine FEN after the move must equal the reference successor with the ep field present iff a legal ep capture exists.",
   note="Trusted: refchess. Known finding recorded: half-move clock wraps at 128 (int8)."),
 "C03": dict(cat="model_checking", design="§5 C03",
   technique="explicit-state DFS over the real MakeMove/MakeNullMove/Undo with deep-snapshot comparison at every nesting level",
   text="At every node of the trees (plus half-move-clock variants) and of every class position, every generated pseudo-legal move (legal or not) and the null move is made, nested below legal ones, undone, and a deep snapshot (three placement encodings, side, rights, ep, counters, whole hash history) compared; long lines (170-400 plies, clocks beyond 127) are made and unwound completely with a null move made and undone at every ply.",
   note="Snapshot through the verif hook board.VerifSnapshotInto."),
 "C04": dict(cat="model_checking", design="§5 C04",
   technique="explicit-state DFS with state matching: from-scratch hash and representation consistency after every make; reference-key table as transposition oracle",
   text="DFS over legal moves and null moves (up to two in a row) below the root corpus and all 3-man positions: after every make the incremental hash equals the from-scratch hash, the three placement encodings agree square by square, and a reference key reached again by another path must carry the hash first recorded.",
   note="From-scratch hash through hook VerifCalcHash; Zobrist collisions between different keys are counted, not judged. Known finding recorded: FEN-loaded root with non-capturable ep target."),
 "C05": dict(cat="model_checking", design="§5 C05",
   technique="complete enumeration of all 32768 move encodings per position against the generator, over tree nodes and closed classes",
   text="For every position (tree nodes as played and with FIDE-style ep FEN, a full 3-man class, the rights/ep-bearing positions of 4-man classes) ALL 2^15 encodings go through IsPseudoLegal and are compared with membership in the generated list; the GUI move gate is probed through a real driver.",
   note="none beyond the position universes"),
 "C09": dict(cat="model_checking", design="§5 C09",
   technique="exhaustive enumeration of material classes (3-man all, 4-man selected, constrained 5-man) and tree nodes; oracle = reference legal-move existence",
   text="IsCheckmate (only in check) and IsStalemate (only out of check) are compared with the reference's has-legal-move on every position of the classes with engine-normalised ep state and on every tree node.",
   note="Trusted: refchess."),
 "C10": dict(cat="model_checking", design="§5 C10",
   technique="exhaustive enumeration of all move sequences up to a length over small move alphabets (DFS on the real make/undo), reference key history as oracle; also through a real uci.Driver",
   text="All histories up to length 14-21 over small alphabets from 10 shuffle roots (oscillations, lost castling rights, transient ep rights, raw/capturable FEN targets, irreversible moves): after every step Threefold() must equal min(3, occurrences of the reference key).",
   note="Known finding recorded: root FEN with non-capturable ep target."),
 "C11": dict(cat="model_checking", design="§5 C11",
   technique="exhaustive enumeration of positions/canonical texts (round trip) and of enumerated byte strings (all short strings, all single-byte edits of base FENs) through every parser entry point and a real driver",
   text="Round trip over all class positions with rotating counters and all tree nodes (FromFEN and ParseFEN into a re-used board); every promotion-reachable piece-count vector through InvalidPieceCount and `position fen`; all strings <=5 over a FEN alphabet and over the tuner-record alphabet (incl. CR/LF) and every 1-byte substitution/deletion/insertion/truncation/field-count/digit-run variant of 12 base FENs through FromFEN, ParseFEN, epd.Parse and `position fen` (board unchanged when rejected, no panic).",
   note="Known finding recorded: FEN of positions reached by play with clock > 100 is rejected on reload."),
 "C12": dict(cat="model_checking", design="§5 C12",
   technique="complete enumeration of the finite space (every square x every subset of the full ray set, all leaper squares, all 64x64 pairs) against coordinate-walking geometry",
   text="The whole space: 64 squares x every subset of the full rook/bishop ray sets (also with off-ray squares set: masking obligation), king/knight/pawn helpers for every square, colour and rank pattern, InBetween for all pairs; exhaustive:true.",
   note="Oracle written independently of the engine's table fill."),
 "C14": dict(cat="model_checking", design="§5 C14",
   technique="complete grid enumeration of clock states plus boundary-value products through the driver's own limit computation",
   text="uci.VerifLimits over the full grid time x increment x colour (movetime on the small corner), all pairs of boundary values up to 10^12 / 10^9 and the clamp break points; hard>0, hard<=clock, margin kept, movetime exact, independence from the opponent's clock.",
   note="Beyond the grid: piecewise linearity between enumerated break points (stated, not proved). Hook uci.VerifLimits."),
 "C15": dict(cat="model_checking", design="§5 C15, App. C",
   technique="explicit-state BFS over store/clear/resize sequences on the real table with digest de-duplication, lock-step with a reference model (ttmodel); complete products for re-basing, two-store interaction, overflow, lane matching",
   text="BFS over operation sequences (10 colliding keys x 8 boundary parameter sets, Clear, Resize+Clear) with all keys probed at three plies after every operation against ttmodel; the same search to its fix-point on a one-bucket table (five keys + the zero-signature key); complete products: every value x store ply x probe ply, all depth pairs x types x generations x moves, bucket overflow patterns, lane matching over all 2^16 keys.",
   note="Bucket index asked of the implementation (hook); both readings accepted for the exact boundary value; sig-0 keys not judged."),
 "C16": dict(cat="model_checking", design="§5 C16",
   technique="exhaustive product positions x hash moves x ranker states on the real picker; reachability fix-point over all stored values x all 65536 bonuses of the real history updates",
   text="Picker run to exhaustion for tree nodes and rights/ep-bearing class positions x hash move in {0, every generated move, 64 foreign encodings; all 32768 on selected roots} x ranker states built by real FailHigh calls x stack depths: yielded multiset == generated set, hash first, weights in band; fix-point of reachable history values under every int16 bonus stays within +-MaxHistory for all three tables.",
   note="none"),
 "C17": dict(cat="model_checking", design="§5 C17",
   technique="exhaustive enumeration of classes, tree nodes and a pawn-structure family, each paired with mirror and non-positional variants",
   text="Eval(P)==Eval(mirror P), == variant without rights/ep, == other full-move number, == same position with hash history, == second evaluation; over 3-man + evaluation-rich 4-man classes, tree nodes, 4-pawn structure family; subset through the UCI eval command.",
   note="none"),
 "C18": dict(cat="model_checking", design="§5 C18",
   technique="exhaustive enumeration of (position, legal move, threshold) with a plain-recursion capture minimax over all tie-break choices as reference",
   text="Every legal move of every tree node, of the ep-bearing class positions and of the exchange families (capture/quiet/en-passant set-ups, every assignment of up to 4-5 men to slots two deep on the rays of the target) x thresholds straddling every achievable balance: SEE true if min balance>=t, false if max<t, monotone.",
   note="Reference refchess.SEEValues."),
 "C19": dict(cat="model_checking", design="§5 C19",
   technique="exhaustive enumeration of positions (float vs integer evaluation envelope) and of coefficient-group subsets (vector mapping with every coefficient holding its ordinal)",
   text="|float eval - white-relative int eval| < 2.25 over classes (clock rotating 0..100), tree nodes, promoted-material boards, loaded with ParseFEN as the tuner does; ToVector/SetVector/TunedParams faithful for subsets of the 17 groups against an independent reflection walk.",
   note="Built against /repo/tools/tuner via replace directive."),
 "C20": dict(cat="model_checking", design="§5 C20",
   technique="exhaustive enumeration over n, seeds, layouts, sub-ranges and read-buffer alignments (overlay builds with small buffers)",
   text="feistel bijective for every width x 24 seeds; shuffleIndex a permutation for EVERY n up to the bound; Batches/Chunks partitions for every n/length; files of every line count in 7 layouts read as whole epochs and all sub-ranges, every window rewound and read twice, two windows interleaved; a 40 MiB file with the real buffer; the same family with the buffer overlaid to 64/257/4096 bytes.",
   note="Epochs beyond the enumerated seeds rest on the epoch only seeding round keys."),
 "C06": dict(cat="fault_enumeration", design="§5 C06",
   technique="exhaustive abort-point enumeration: hard node budget k for every k of a search, soft limit at every iteration boundary, persistent-instance game sequences, UCI numeric-argument sweep; reference-model legality oracle and deep board snapshots",
   text="For constructed special roots (in-check, single-reply, promotion, clocks 98/99/100, mates, stalemates), histories with second/third occurrences, perft/bench roots x depth x table size: the search is aborted after exactly k nodes for every k up to the size of the full search (strided beyond a cap), at every iteration boundary by a soft limit, searched again on the same instance, and driven along whole games on one instance; poisoned tables (the table entry of the root or of a position one move below it holds every from/to encoding, as a colliding entry would leave it); look-alike histories (a right or an en-passant pawn gone between equal placements); returned move null or legal, null only on final roots, (0,0)/(0,-Inf) on completed final roots, board snapshot identical, nodes <= budget; `go` with numeric edge arguments through a real driver.",
   note="Abort by the stop channel at polls that node budgets cannot reach is covered by the instrumented fault-plan run when built; refchess trusted."),
 "C07": dict(cat="model_checking", design="§5 C07",
   technique="bounded exhaustive enumeration of searches (roots x generated shuffle histories x depths x table sizes x abort points, warmed-table games, poisoned table entries, ponderhit at every poll) with every reported variation replayed in the reference model",
   text="Every `info .. pv` line of every search (fresh tables over the whole root corpus and thousands of generated out-and-back histories that put draws inside the tree, depths 1..6, two table sizes, hard-budget sweeps; persistent instances along engine-vs-engine games with tiny and normal tables) is replayed move by move in the reference model; returned move = head of the last non-empty line; ponder legal; depths increase, nodes never decrease.",
   note="Table states are reached by deterministic games, not exhausted."),
 "C08": dict(cat="model_checking", design="§5 C08",
   technique="twin-instance differential exploration over game histories x every iteration boundary (soft limit vs hard budget), digest comparison of the state left behind; free-running concurrent replay plus race-detector pass (complementary)",
   text="Along engine-vs-engine games (tables carried over) every search runs on two identically driven instances (results, reported lines, table/history/generation digests equal) and is replayed on a third with a hard budget equal to the nodes used (same result, same state, budget respected); every iteration boundary of depth-6 searches over the root corpus soft vs hard plus a follow-up search; all games replayed concurrently must reproduce sequential transcripts; games under hard budgets that cut searches mid-iteration or before any move is found; Clear() after games, after mid-iteration cuts and after 255/256/257/512/513 searches must leave an instance that answers like a fresh one; an instance without an output sink must give the same results; race detector pass over up to 24 concurrent instances.",
   note="Race-detector silence proves nothing (complementary pass); digests through verif hooks."),
 "C13": dict(cat="model_checking", design="§5 C13, §4.3, App. A",
   technique="stateless DFS over thread interleavings of the real uci package under a hand-written cooperative scheduler (operations redirected by an AST rewrite applied through go build -overlay), iterative deviation bounding with global-state-key pruning; mock search validated against real-search traces; solo fault plans; complementary race-detector pass",
   text="The real driver (reader, handler+search, writer, per-go interrupt goroutine, timers, pool) runs under a controlled scheduler; for scripts of a bounded conforming grammar every interleaving within 2 deviations (preemptions, short writes, pool misses; key scripts unbounded) is executed and judged: no panic, no deadlock, all threads finished, exactly one bestmove per go after its info lines, one readyok per isready, no torn line; real-search scripts with every poll a scheduling point; a pondering real search with exhausted node budget must honour stop at every poll.",
   note="The mock search abstracts the real search's interaction protocol (validated by trace acceptance on 500+ real searches); data races are outside a cooperative scheduler: free-running -race pass is complementary."),
}

PENDING = {
}

def main():
    root = "/verif"
    props = [json.loads(l) for l in open(os.path.join(root, "properties.jsonl"))]
    try:
        commits = subprocess.check_output(["git", "-C", "/repo", "log", "--format=%H %s"], text=True).splitlines()
    except Exception:
        commits = []
    hook_commits = [c.split()[0] for c in commits if " verif hook" in c]
    checks = []
    for pid, c in CHECKS.items():
        checks.append({
            "property_id": pid,
            "quick_cmd": f"bin/check {pid} quick",
            "thorough_cmd": f"bin/check {pid} thorough",
            "evidence_file": f"/verif/evidence/{pid}.json",
            "replay_cmd_template": f"bin/check {pid} --replay {{path}}",
            "engine": "verifcheck",
            "level_claimed": {"category": c["cat"], "text": c["text"], "design_ref": c["design"]},
            "level_note": c["note"],
            "technique": c["technique"],
        })
    na = []
    for p in props:
        if p["id"] not in CHECKS:
            na.append({"property_id": p["id"], "reason": PENDING.get(p["id"], "check not built yet (work in progress; the technique applies, see DESIGN.md)")})
    m = {
        "version": 1,
        "setup_cmd": "bin/setup",
        "hooks": {
            "guard": "verif",
            "enable": "go build -tags verif (bin/check builds /verif/harness against /repo via a replace directive; instrumented variants add -overlay produced by harness/instr)",
            "baseline_off_cmd": ". /verif/bin/env.sh && cd /repo && go test -mod=mod -vet=off -count=1 -timeout 25m ./...",
            "source_commits": hook_commits,
            "add_only": True,
        },
        "engines": [
            {"name": "verifcheck", "path": "/verif/harness", "serves_properties": sorted(CHECKS), "kind_free_text": "hand-written bounded exhaustive explorer: explicit-state / input-class enumeration over the real implementation in lock-step with reference models (refchess, ttmodel), controlled scheduler for the UCI driver"},
        ],
        "checks": checks,
        "not_applicable": na,
        "notes": "All checks: cwd=/verif. VERIF_TIER overrides the tier argument; VERIF_SEED rotates the additional complete sub-universe of a quick run. See DESIGN.md.",
    }
    json.dump(m, open(os.path.join(root, "MANIFEST.json"), "w"), indent=1)
    print("wrote MANIFEST.json with", len(checks), "checks,", len(na), "not_applicable")

if __name__ == "__main__":
    main()
