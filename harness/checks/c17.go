package checks

import (
	"encoding/json"
	"fmt"
	"strings"
	"sync/atomic"

	"github.com/paulsonkoly/chess-3/board"
	. "github.com/paulsonkoly/chess-3/chess"
	"github.com/paulsonkoly/chess-3/eval"

	"verif/eng"
	"verif/ev"
	"verif/refchess"
	"verif/universe"
)

// C17 — static evaluation is colour-symmetric and depends only on the position.

type c17Case struct {
	FEN     string   `json:"fen"`
	Variant string   `json:"variant"` // FEN of the variant that must evaluate the same
	Moves   []string `json:"moves,omitempty"`
}

func c17Eval(b *board.Board) Score { return eval.Eval(b, &eval.Coefficients) }

// evalClasses are rich in evaluation terms (special cases included).
var evalClasses = []string{"KBNk", "KBBk", "KNNk", "KPPk", "KNPk", "KRRk", "KQkp", "KPkp", "Kkbn", "KRkr", "KBPk", "KRPk", "KQkq", "Kkpp", "KNkp", "KBkp", "KRkp", "KBkn", "KRkb"}

// evalSpecialClasses have an evaluation branch of their own (the knight-and-bishop mate, for either colour): never rotated out.
var evalSpecialClasses = []string{"KBNk", "Kkbn"}

func c17Replay(class string, raw json.RawMessage) (bool, string) {
	var c c17Case
	if err := json.Unmarshal(raw, &c); err != nil {
		return false, err.Error()
	}
	a, err := board.FromFEN(c.FEN)
	if err != nil {
		return false, err.Error()
	}
	b, err := board.FromFEN(c.Variant)
	if err != nil {
		return false, err.Error()
	}
	ea, eb := c17Eval(a), c17Eval(b)
	if ea != eb {
		return true, fmt.Sprintf("Eval(%s)=%d but Eval(%s)=%d", c.FEN, ea, c.Variant, eb)
	}
	return false, fmt.Sprintf("both evaluate to %d", ea)
}

func init() {
	register(&Check{ID: "C17", Level: "model_checking", Run: runC17, Replay: c17Replay})
}

type c17Worker struct {
	a, b eng.Loader
}

func runC17(r *ev.Run) {
	var positions, pairs, nonzero, special atomic.Int64
	// judge evaluates p and its variants
	judge := func(w *c17Worker, p *refchess.Pos, played *board.Board, path func() []string) {
		positions.Add(1)
		ba := w.a.Load(p)
		e0 := c17Eval(ba)
		if e0 != 0 {
			nonzero.Add(1)
		}
		cmp := func(kind string, q *refchess.Pos) {
			pairs.Add(1)
			if e := c17Eval(w.b.Load(q)); e != e0 {
				c := c17Case{FEN: p.FEN(), Variant: q.FEN()}
				if path != nil {
					c.Moves = path()
				}
				r.Fail(kind, c, "Eval(%s)=%d but %s variant %s evaluates to %d", p.FEN(), e0, kind, q.FEN(), e)
			}
		}
		m := p.Mirror()
		cmp("mirror", &m)
		if p.Castle != 0 || p.Ep >= 0 {
			special.Add(1)
			q := *p
			q.Castle = 0
			q.Ep = -1
			cmp("rights-or-ep", &q)
		}
		q := *p
		q.Full = p.Full + 56
		cmp("fullmove", &q)
		// evaluation twice (previous evaluations must not matter)
		pairs.Add(1)
		if e := c17Eval(ba); e != e0 {
			r.Fail("repeat", c17Case{FEN: p.FEN(), Variant: p.FEN()}, "Eval(%s) gives %d, then %d", p.FEN(), e0, e)
		}
		if played != nil {
			// same position with a hash history behind it
			pairs.Add(1)
			if e := c17Eval(played); e != e0 {
				r.Fail("history", c17Case{FEN: p.FEN(), Variant: p.FEN(), Moves: path()}, "position reached by play evaluates to %d, the same position loaded from FEN to %d (%s)", e, e0, p.FEN())
			}
		}
	}

	classes := universe.ThreeMan()
	classes = append(classes, parseClasses(uniqStrings(append(append([]string(nil), evalSpecialClasses...), seedPick(evalClasses, r.Seed, ev.Pick(r, 3, len(evalClasses)))...)))...)
	r.Set("classes", classNames(classes))
	var sc atomic.Int64
	forClasses(r, classes, universe.Opts{}, func() *c17Worker { return &c17Worker{} }, func(w *c17Worker, p *refchess.Pos) {
		judge(w, p, nil, nil)
		if sc.Add(1)%4000000 == 1 {
			m := p.Mirror()
			r.Sample(map[string]any{"fen": p.FEN(), "mirror": m.FEN()})
		}
	})

	// U2: dense positions by play
	roots := universe.AllRoots()
	depth := ev.Pick(r, 2, 3)
	var n2 atomic.Int64
	ev.Parallel(len(roots), func(worker, item int) {
		if r.Expired() {
			return
		}
		root := roots[item]
		var cw c17Worker
		w := &universe.Walker{}
		w.Visit = func(w *universe.Walker, p *refchess.Pos, left int) bool {
			n2.Add(1)
			n := p.Normalized()
			if n.Half > 100 {
				return !r.Expired() // cannot be loaded from FEN (parser domain ends at 100, see C11)
			}
			judge(&cw, &n, w.B, w.PathStrings)
			return !r.Expired()
		}
		w.Walk(&root.Pos, eng.Load(&root.Pos), depth)
	})
	r.Set("u2_nodes", n2.Load())

	// pawn-structure family: kings fixed, 2 white + 2 black pawns anywhere (+ a knight on the 16 central squares, thorough)
	fam := c17PawnFamily(r, judge)
	r.Set("pawn_structure_family", fam)

	// a subset through the UCI `eval` command
	var script strings.Builder
	var want []string
	for i, root := range roots {
		if i%3 != 0 {
			continue
		}
		fmt.Fprintf(&script, "position fen %s\neval\n", root.FEN)
		want = append(want, fmt.Sprint(c17Eval(eng.Load(&root.Pos)))) // the command prints Score.String()
	}
	out, _ := runDriver(script.String(), nullSearch{})
	lines := strings.Split(strings.TrimSpace(out), "\n")
	for i := range want {
		if i >= len(lines) || lines[i] != want[i] {
			r.Fail("uci-eval", c17Case{FEN: roots[i*3].FEN, Variant: roots[i*3].FEN}, "`eval` prints %v, Eval gives %s", lines, want[i])
			break
		}
	}

	r.States.Store(positions.Load())
	r.Transitions.Store(pairs.Load())
	r.Validated.Store(pairs.Load())
	r.Evals.Store(pairs.Load())
	r.Nontrivial.Store(nonzero.Load())
	r.Set("distinct_outcomes", map[string]int64{"positions_with_nonzero_eval": nonzero.Load(), "positions_with_rights_or_ep": special.Load()})
	r.Set("rule", "every position of the listed classes, every tree node below the root corpus (as loaded and as reached by play) and the pawn-structure family, each paired with its colour-flipped mirror, with the variant stripped of rights and en-passant target, with another full-move number, with a hash history, and evaluated twice; oracle: equal scores; non-trivial = positions whose evaluation is not 0")
}

func c17PawnFamily(r *ev.Run, judge func(w *c17Worker, p *refchess.Pos, played *board.Board, path func() []string)) int64 {
	var count atomic.Int64
	knight := r.Thorough()
	ev.Parallel(48, func(worker, item int) {
		if r.Expired() {
			return
		}
		var cw c17Worker
		var p refchess.Pos
		p.Ep = -1
		p.Full = 1
		p.Sq[6] = refchess.King   // g1
		p.Sq[57] = -refchess.King // b8
		a := 8 + item
		p.Sq[a] = refchess.Pawn
		for b := a + 1; b < 56; b++ {
			p.Sq[b] = refchess.Pawn
			for c := 8; c < 56; c++ {
				if p.Sq[c] != 0 {
					continue
				}
				p.Sq[c] = -refchess.Pawn
				for d := c + 1; d < 56; d++ {
					if p.Sq[d] != 0 {
						continue
					}
					p.Sq[d] = -refchess.Pawn
					try := func() {
						for stm := int8(0); stm < 2; stm++ {
							p.Stm = stm
							if p.Valid() {
								count.Add(1)
								judge(&cw, &p, nil, nil)
							}
						}
					}
					if knight && (a+b+c+d)%4 == 0 {
						for _, ks := range []int{26, 27, 28, 29, 34, 35, 36, 37, 18, 21, 42, 45} {
							if p.Sq[ks] != 0 {
								continue
							}
							for _, kn := range []int8{refchess.Knight, -refchess.Knight} {
								p.Sq[ks] = kn
								try()
							}
							p.Sq[ks] = 0
						}
					} else {
						try()
					}
					p.Sq[d] = 0
				}
				p.Sq[c] = 0
			}
			p.Sq[b] = 0
		}
	})
	return count.Load()
}
