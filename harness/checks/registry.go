// Package checks holds one check per property: alphabet + bound + oracle.
package checks

import (
	"encoding/json"
	"fmt"
	"os"
	"sort"
	"strings"

	"verif/ev"
)

// Check is a registered property check.
type Check struct {
	ID    string
	Level string
	Run   func(r *ev.Run)
	// Replay re-executes one recorded case without the explorer and returns
	// whether the violation reproduces, and a message.
	Replay func(class string, c json.RawMessage) (bool, string)
}

var registry = map[string]*Check{}

func register(c *Check) { registry[c.ID] = c }

// IDs lists registered checks.
func IDs() []string {
	var out []string
	for k := range registry {
		out = append(out, k)
	}
	sort.Strings(out)
	return out
}

// panicOrigin returns the function in which a recovered panic was raised.
func panicOrigin(stack string) string {
	lines := strings.Split(stack, "\n")
	for i, ln := range lines {
		if strings.HasPrefix(ln, "panic(") {
			for j := i + 1; j < len(lines); j++ {
				l := strings.TrimSpace(lines[j])
				if l == "" || strings.HasPrefix(l, "/") || strings.HasPrefix(l, "runtime.") {
					continue
				}
				if k := strings.LastIndex(l, "("); k > 0 {
					return l[:k]
				}
				return l
			}
		}
	}
	return ""
}

// Main runs check id at the given tier (or a replay).
func Main(id, tier, replay string) {
	c := registry[id]
	if c == nil {
		fmt.Fprintf(os.Stderr, "unknown check %q; have %v\n", id, IDs())
		os.Exit(2)
	}
	if replay != "" {
		data, err := os.ReadFile(replay)
		if err != nil {
			fmt.Fprintln(os.Stderr, err)
			os.Exit(2)
		}
		var doc struct {
			Class string          `json:"class"`
			Case  json.RawMessage `json:"case"`
		}
		if err := json.Unmarshal(data, &doc); err != nil {
			fmt.Fprintln(os.Stderr, err)
			os.Exit(2)
		}
		if c.Replay == nil {
			fmt.Fprintf(os.Stderr, "check %s has no replay function\n", id)
			os.Exit(2)
		}
		bad, msg := c.Replay(doc.Class, doc.Case)
		if bad {
			fmt.Printf("replay reproduces: %s\nVIOLATION property=%s replay=%s\n", msg, id, replay)
			os.Exit(1)
		}
		fmt.Printf("replay does not reproduce (property holds on this case): %s\n", msg)
		os.Exit(0)
	}
	r := ev.New(id, tier, c.Level)
	// a panic that originates in the code under test is a finding, not a harness error
	ev.PanicHook = func(val any, stack string) bool {
		origin := panicOrigin(stack)
		if !strings.HasPrefix(origin, "github.com/paulsonkoly/chess-3/") {
			return false
		}
		fn := strings.TrimPrefix(origin, "github.com/paulsonkoly/chess-3/")
		r.Fail("engine-panic/"+fn, map[string]any{"panic": fmt.Sprint(val), "stack": stack}, "panic in the code under test (%s): %v\n%s", fn, val, firstLines(stack, 14))
		return true
	}
	c.Run(r)
	r.Finish()
}
