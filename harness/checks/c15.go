package checks

import (
	"encoding/json"
	"fmt"
	"sync"
	"sync/atomic"

	"github.com/paulsonkoly/chess-3/board"
	. "github.com/paulsonkoly/chess-3/chess"
	"github.com/paulsonkoly/chess-3/move"
	"github.com/paulsonkoly/chess-3/transp"

	"verif/ev"
	"verif/ttmodel"
)

// C15 — the transposition table returns only what was stored for that key.

// c15Op is one operation of the alphabet.
type c15Op struct {
	Kind  string        `json:"kind"` // "insert", "clear", "resize"
	Store ttmodel.Store `json:"store,omitempty"`
	Size  int           `json:"size,omitempty"`
}

type c15Case struct {
	Size int     `json:"initial_size"`
	Ops  []c15Op `json:"ops"`
}

// keys: the low 32 bits choose the bucket (Lemire reduction), the top 16 bits are the signature.
func c15Key(sig uint16, low uint32, mid uint16) uint64 {
	return uint64(sig)<<48 | uint64(mid)<<32 | uint64(low)
}

var c15Keys = []uint64{
	c15Key(0xA001, 0x00000010, 0), // A: bucket 0 on every table
	c15Key(0xB002, 0x00000020, 1), // B..E: same bucket as A, distinct signatures
	c15Key(0xC003, 0x00000030, 2),
	c15Key(0xD004, 0x00000040, 3),
	c15Key(0xE005, 0x00000050, 4),
	c15Key(0xA001, 0xF0000000, 5),      // F: signature of A, last bucket of multi-bucket tables
	c15Key(0xA001, 0x00000011, 0x7777), // G: alias of A (same bucket and signature, other middle bits)
	c15Key(0x0000, 0x00000060, 6),      // Z: all-zero signature (excluded from the no-phantom clause)
	c15Key(0x8000, 0x00000070, 7),      // H: only the top signature bit set
	c15Key(0x0001, 0x00000080, 8),      // I: only the lowest signature bit set
}

const (
	mvA = uint16(12<<6 | 28)
	mvB = uint16(52<<6 | 36)
)

// parameter combinations on the rule boundaries
var c15Params = []ttmodel.Store{
	{Gen: 0, Depth: 3, Ply: 0, Move: mvA, Value: 50, Type: ttmodel.Exact},
	{Gen: 0, Depth: 0, Ply: 2, Move: 0, Value: -20, Type: ttmodel.Upper},    // 3 > 0+2: kept out by a depth-3 same-search entry; null move keeps the old move
	{Gen: 0, Depth: 1, Ply: 1, Move: mvB, Value: 9990, Type: ttmodel.Lower}, // 3 > 1+2 is false: replaces; mate score
	{Gen: 1, Depth: 0, Ply: 3, Move: 0, Value: -9990, Type: ttmodel.Upper},  // other search: replaces whatever the depth
	{Gen: 0, Depth: 63, Ply: 63, Move: mvA, Value: 9936, Type: ttmodel.Exact},
	{Gen: 255, Depth: 4, Ply: 0, Move: mvB, Value: 7, Type: ttmodel.Lower},
	{Gen: 0, Depth: 6, Ply: 5, Move: 0, Value: -9937, Type: ttmodel.Lower},
	{Gen: 1, Depth: 61, Ply: 10, Move: mvB, Value: 10000, Type: ttmodel.Upper},
}

var c15Sizes = []int{32, 64, 96, 32000}

func c15Alphabet() []c15Op {
	var ops []c15Op
	for _, k := range c15Keys {
		for _, p := range c15Params {
			s := p
			s.Key = k
			ops = append(ops, c15Op{Kind: "insert", Store: s})
		}
	}
	ops = append(ops, c15Op{Kind: "clear"})
	for _, sz := range c15Sizes {
		ops = append(ops, c15Op{Kind: "resize", Size: sz})
	}
	for _, sz := range []int{32, 96, 64000} {
		ops = append(ops, c15Op{Kind: "resize-raw", Size: sz})
	}
	return ops
}

// c15Run replays ops on a fresh table and model, checking every step. It
// returns the failure class and message of the first violation.
type c15Result struct {
	class, msg string
	digest     uint64
	evictions  int
	hits       int
}

func c15Apply(t *transp.Table, m *ttmodel.Model, op c15Op) {
	switch op.Kind {
	case "insert":
		s := op.Store
		t.Insert(board.Hash(s.Key), transp.Gen(s.Gen), Depth(s.Depth), Depth(s.Ply), move.Move(s.Move), Score(s.Value), transp.Type(s.Type))
	case "clear":
		t.Clear()
	case "resize":
		t.Resize(op.Size)
		t.Clear()
	case "resize-raw":
		t.Resize(op.Size) // no clear: contents unspecified, only memory safety of continued use is judged
	}
}

var c15ProbePlies = []int8{0, 1, 63}

func c15Run(size int, ops []c15Op) c15Result {
	var res c15Result
	t := transp.New(size)
	t.Clear()
	m := ttmodel.New()
	unspecified := false // after a resize without clear nothing is judged until the next clear
	for step, op := range ops {
		fresh := false
		bucket := -1
		if op.Kind == "resize-raw" {
			unspecified = true
		} else if op.Kind != "insert" {
			unspecified = false
		}
		if unspecified {
			// memory safety of continued use: operate and probe, judge nothing
			c15Apply(t, m, op)
			m.Clear()
			for _, k := range c15Keys {
				if e, ok := t.LookUp(board.Hash(k)); ok {
					_, _, _, _ = e.Depth(), e.Type(), e.Value(5), e.Move
				}
			}
			continue
		}
		switch op.Kind {
		case "insert":
			bucket = t.VerifBucketIx(board.Hash(op.Store.Key))
			c15Apply(t, m, op)
			if ttmodel.Sig(op.Store.Key) == 0 {
				// an all-zero signature is indistinguishable from "empty": such keys are
				// stored and probed (memory safety, at-most-one eviction) but what a
				// probe of them returns is not judged
				fresh = true
			} else {
				fresh = m.Insert(bucket, op.Store)
			}
		default:
			c15Apply(t, m, op)
			m.Clear()
		}
		// probe every key of the alphabet
		evicted := 0
		for _, k := range c15Keys {
			kb := t.VerifBucketIx(board.Hash(k))
			rec, live := m.Get(kb, k)
			e, ok := t.LookUp(board.Hash(k))
			if ttmodel.Sig(k) == 0 {
				if ok {
					_, _, _ = e.Depth(), e.Type(), e.Value(3)
				}
				continue
			}
			if !live {
				if ok && ttmodel.Sig(k) != 0 {
					res.class = "phantom-hit"
					res.msg = fmt.Sprintf("step %d (%+v): probe of key %016x hits although nothing is stored under its bucket and signature", step, op, k)
					return res
				}
				continue
			}
			if !ok {
				// the record became unreachable: allowed only as the single victim of a fresh store into its bucket
				if op.Kind == "insert" && fresh && kb == bucket && ttmodel.Sig(k) != ttmodel.Sig(op.Store.Key) {
					if _, still := m.Get(kb, k); still {
						m.Evict(kb, k)
						evicted++
					}
					continue
				}
				res.class = "lost-record"
				res.msg = fmt.Sprintf("step %d (%+v): key %016x misses but %v should be stored", step, op, k, rec)
				return res
			}
			res.hits++
			if int8(e.Depth()) != rec.Depth || uint8(e.Type()) != rec.Type || uint16(e.Move) != rec.Move {
				res.class = "wrong-data"
				res.msg = fmt.Sprintf("step %d (%+v): key %016x returns depth %d type %d move %d, stored %v", step, op, k, e.Depth(), e.Type(), e.Move, rec)
				return res
			}
			for _, ply := range c15ProbePlies {
				if want, alt := rec.Expected(ply); int16(e.Value(Depth(ply))) != want && int16(e.Value(Depth(ply))) != alt {
					res.class = "wrong-value"
					res.msg = fmt.Sprintf("step %d (%+v): key %016x probed at ply %d returns %d, expected %d for %v", step, op, k, ply, e.Value(Depth(ply)), want, rec)
					return res
				}
			}
		}
		if evicted > 1 {
			res.class = "evicts-more-than-one"
			res.msg = fmt.Sprintf("step %d (%+v): the store made %d other keys of its bucket unreachable", step, op, evicted)
			return res
		}
		res.evictions += evicted
		if op.Kind == "insert" && bucket >= 0 && m.LiveIn(bucket) > 4 {
			res.class = "more-than-four-live"
			res.msg = fmt.Sprintf("step %d: more than 4 live records in bucket %d", step, bucket)
			return res
		}
	}
	res.digest = t.VerifDigest()
	return res
}

func c15Replay(class string, raw json.RawMessage) (bool, string) {
	var c c15Case
	if err := json.Unmarshal(raw, &c); err != nil {
		return false, err.Error()
	}
	if c.Size == 0 {
		// product cases carry their own description
		return c15ReplayProduct(class, raw)
	}
	if res := c15Run(c.Size, c.Ops); res.class != "" {
		return true, res.msg
	}
	return false, "sequence behaves as the model"
}

func init() {
	register(&Check{ID: "C15", Level: "model_checking", Run: runC15, Replay: c15Replay})
}

func runC15(r *ev.Run) {
	alphabet := c15Alphabet()
	maxLen := ev.Pick(r, 3, 4)
	var states, transitions, evictions, hits atomic.Int64

	// BFS over operation sequences with state de-duplication (state = table
	// digest + size; equal digests have equal futures because every
	// operation is a function of the table contents and its size).
	type node struct {
		size int
		ops  []int
	}
	bfs := func(sizes []int, alphabet []c15Op, maxLen int) (closed bool) {
		closed = true
		for _, size := range sizes {
			seen := map[[2]uint64]bool{}
			var mu sync.Mutex
			frontier := []node{{size: size}}
			seen[[2]uint64{uint64(size), c15Run(size, nil).digest}] = true
			for depth := 1; depth <= maxLen && len(frontier) > 0 && !r.Expired(); depth++ {
				var next []node
				ev.Parallel(len(frontier), func(worker, item int) {
					if r.Expired() {
						return
					}
					nd := frontier[item]
					ops := make([]c15Op, len(nd.ops)+1)
					for i, ix := range nd.ops {
						ops[i] = alphabet[ix]
					}
					var local []node
					for ai, op := range alphabet {
						ops[len(nd.ops)] = op
						transitions.Add(1)
						res := c15Run(nd.size, ops)
						if res.class != "" {
							cp := append([]c15Op(nil), ops...)
							r.Fail(res.class, c15Case{Size: nd.size, Ops: cp}, "table of %d bytes, %d ops: %s", nd.size, len(cp), res.msg)
							continue
						}
						evictions.Add(int64(res.evictions))
						hits.Add(int64(res.hits))
						cur := nd.size
						for _, o := range ops {
							if o.Kind == "resize" || o.Kind == "resize-raw" {
								cur = o.Size
							}
						}
						key := [2]uint64{uint64(cur), res.digest}
						mu.Lock()
						dup := seen[key]
						if !dup {
							seen[key] = true
						}
						mu.Unlock()
						if !dup {
							seq := append(append([]int(nil), nd.ops...), ai)
							local = append(local, node{nd.size, seq})
						}
					}
					mu.Lock()
					next = append(next, local...)
					mu.Unlock()
				})
				frontier = next
				if depth == maxLen && len(next) > 0 {
					closed = false
				}
				if depth == 2 && len(next) > 0 {
					var sample []c15Op
					for _, ix := range next[len(next)/2].ops {
						sample = append(sample, alphabet[ix])
					}
					r.Sample(map[string]any{"initial_size": size, "ops": sample})
				}
			}
			states.Add(int64(len(seen)))
		}
		return closed
	}
	bfs([]int{32, 64}, alphabet, maxLen)
	// the same search, run to its fix-point (no new table state) on a one-bucket table over a reduced alphabet: five keys of
	// one bucket with distinct signatures and the key whose signature is all zero ("empty"), two parameter sets each -
	// long histories in which a zero-signature entry sits below, between or above live entries
	var small []c15Op
	for _, ki := range []int{0, 1, 2, 3, 4, 7} {
		for _, pi := range []int{0, 2, 3} {
			st := c15Params[pi]
			st.Key = c15Keys[ki]
			small = append(small, c15Op{Kind: "insert", Store: st})
		}
	}
	r.Set("one_bucket_fixpoint_reached", bfs([]int{32}, small, ev.Pick(r, 12, 40)))
	r.Set("sequence_length", maxLen)
	r.Set("alphabet_size", len(alphabet))

	prod := c15Products(r)

	r.States.Store(states.Load())
	r.Transitions.Store(transitions.Load())
	r.Validated.Store(transitions.Load())
	r.Evals.Store(transitions.Load() + prod)
	r.Nontrivial.Store(states.Load())
	r.Set("product_cases", prod)
	r.Set("distinct_outcomes", map[string]int64{"evictions_observed": evictions.Load(), "probe_hits_checked": hits.Load()})
	r.Set("rule", "explicit-state BFS over operation sequences on the real Table (alphabet: Insert of 10 keys built to share bucket and/or signature x 8 parameter sets on the rule boundaries, Clear, Resize+Clear to 32/64/96/32000 bytes, Resize without Clear (memory safety of continued use only)), successors by replay on a fresh table, states de-duplicated by table digest; the same search run to its fix-point (no new table state) on a one-bucket table over five keys of one bucket plus the all-zero-signature key x three parameter sets; after EVERY operation all keys are probed at plies 0,1,63 and compared with the reference model; plus complete products: mate re-basing for every value x store ply x probe ply, the two-store interaction for all depth pairs x types x generations x moves, bucket overflow for depth/generation patterns, lane matching over lane alphabets x all 2^16 keys")
	r.Assume("bucket membership is asked of the implementation (verif hook VerifBucketIx), signature = top 16 bits as stated by the property")
	r.Assume("for the exact boundary value +-(Inf-MaxPlies) both readings (mate distance, plain score) are accepted; the contents after a resize without clear are not judged; keys with an all-zero signature are excluded from the no-phantom clause")
}
