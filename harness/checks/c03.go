package checks

import (
	"encoding/json"
	"fmt"
	"slices"
	"sync/atomic"

	"github.com/paulsonkoly/chess-3/board"
	"github.com/paulsonkoly/chess-3/move"

	"verif/eng"
	"verif/ev"
	"verif/refchess"
	"verif/universe"
)

// C03 — undoing a move restores the position exactly (every attribute,
// including the whole hash history), at any nesting depth.

type c03Case struct {
	FEN   string   `json:"fen"`
	Moves []string `json:"moves"` // path of moves made (and kept) before the failing one; "0000" = null move
	Move  string   `json:"move"`  // the move that was made and undone
}

func snapEqual(a, b *board.VerifSnap) string {
	switch {
	case a.SquaresToPiece != b.SquaresToPiece:
		return "piece map"
	case a.Pieces != b.Pieces:
		return "piece-type sets"
	case a.Colors != b.Colors:
		return "colour sets"
	case a.STM != b.STM:
		return "side to move"
	case a.Castles != b.Castles:
		return "castling rights"
	case a.EnPassant != b.EnPassant:
		return "en-passant target"
	case a.FiftyCnt != b.FiftyCnt:
		return fmt.Sprintf("half-move clock (%d -> %d)", a.FiftyCnt, b.FiftyCnt)
	case a.FullMoves != b.FullMoves:
		return fmt.Sprintf("full-move number (%d -> %d)", a.FullMoves, b.FullMoves)
	case len(a.Hashes) != len(b.Hashes):
		return fmt.Sprintf("hash history length (%d -> %d)", len(a.Hashes), len(b.Hashes))
	case !slices.Equal(a.Hashes, b.Hashes):
		return "hash history contents"
	}
	return ""
}

// c03Walker makes and undoes every generated (pseudo-legal) move and the
// null move at every node; legal moves (and null moves out of check) nest.
type c03Walker struct {
	r       *ev.Run
	b       *board.Board
	ms      *move.Store
	rootFEN string
	rootPos *refchess.Pos
	path    []string
	snaps   []board.VerifSnap // one pair of snapshots per depth
	pairs   *atomic.Int64
	illegal *atomic.Int64
	nulls   *atomic.Int64
	special *atomic.Int64
}

func (w *c03Walker) fail(mv string, what string) {
	if w.rootFEN == "" && w.rootPos != nil {
		w.rootFEN = w.rootPos.FEN()
	}
	c := c03Case{FEN: w.rootFEN, Moves: append([]string(nil), w.path...), Move: mv}
	w.r.Fail("undo/"+what[:min(len(what), 12)], c, "%s after %v: make+undo of %s changed the %s", w.rootFEN, w.path, mv, what)
}

func (w *c03Walker) walk(depth int) {
	b := w.b
	level := len(w.path)
	for len(w.snaps) < 2*(level+1) {
		w.snaps = append(w.snaps, board.VerifSnap{})
	}
	before, after := &w.snaps[2*level], &w.snaps[2*level+1]
	b.VerifSnapshotInto(before)
	me := b.STM
	inCheck := b.InCheck(me)
	var gen [256]uint16
	moves := eng.Generated(w.ms, b, gen[:0])
	for _, e := range moves {
		m := move.Move(e)
		isSpecial := m.Promo() != 0 || b.IsEnPassant(m) || (b.SquaresToPiece[m.From()] == 6 && (m.From()-m.To() == 2 || m.To()-m.From() == 2))
		rv := b.MakeMove(m)
		w.pairs.Add(1)
		if isSpecial {
			w.special.Add(1)
		}
		legal := !b.InCheck(me)
		if !legal {
			w.illegal.Add(1)
		}
		if legal && depth > 0 {
			w.path = append(w.path, m.String())
			w.walk(depth - 1)
			w.path = w.path[:len(w.path)-1]
		}
		b.UndoMove(m, rv)
		b.VerifSnapshotInto(after)
		if d := snapEqual(before, after); d != "" {
			w.fail(m.String(), d)
			// restore so that one defect does not cascade into unrelated reports
			nb, err := board.FromFEN(w.rootFEN)
			if err == nil && len(w.path) == 0 {
				*b = *nb
				b.VerifSnapshotInto(before)
			} else {
				return
			}
		}
	}
	// null move (the search only issues it out of check; in check it is made
	// and undone without nesting)
	rv := b.MakeNullMove()
	w.pairs.Add(1)
	w.nulls.Add(1)
	if !inCheck && depth > 0 {
		w.path = append(w.path, "0000")
		w.walk(depth - 1)
		w.path = w.path[:len(w.path)-1]
	}
	b.UndoNullMove(rv)
	b.VerifSnapshotInto(after)
	if d := snapEqual(before, after); d != "" {
		w.fail("0000", d)
	}
}

func c03Replay(class string, raw json.RawMessage) (bool, string) {
	var c c03Case
	if err := json.Unmarshal(raw, &c); err != nil {
		return false, err.Error()
	}
	b, err := board.FromFEN(c.FEN)
	if err != nil {
		return false, err.Error()
	}
	parse := func(s string) (move.Move, bool) {
		if s == "0000" {
			return 0, true
		}
		var gen [256]uint16
		for _, e := range eng.Generated(move.NewStore(), b, gen[:0]) {
			if move.Move(e).String() == s {
				return move.Move(e), true
			}
		}
		return 0, false
	}
	for _, s := range c.Moves {
		m, ok := parse(s)
		if !ok {
			return false, "path move " + s + " is not generated"
		}
		if m == 0 {
			b.MakeNullMove()
		} else {
			b.MakeMove(m)
		}
	}
	var before, after board.VerifSnap
	b.VerifSnapshotInto(&before)
	m, ok := parse(c.Move)
	if !ok {
		return false, "move " + c.Move + " is not generated"
	}
	if m == 0 {
		b.UndoNullMove(b.MakeNullMove())
	} else {
		b.UndoMove(m, b.MakeMove(m))
	}
	b.VerifSnapshotInto(&after)
	if d := snapEqual(&before, &after); d != "" {
		return true, "make+undo of " + c.Move + " changed the " + d
	}
	return false, "make+undo restores the position"
}

func init() {
	register(&Check{ID: "C03", Level: "model_checking", Run: runC03, Replay: c03Replay})
}

// clockVariants returns root FENs with the half-move clock replaced by edge values.
func clockVariants(p refchess.Pos, clocks []int) []refchess.Pos {
	var out []refchess.Pos
	for _, c := range clocks {
		q := p
		q.Half = c
		if q.Ep >= 0 && c != 0 {
			continue // a double push just happened: clock is 0
		}
		out = append(out, q)
	}
	return out
}

func runC03(r *ev.Run) {
	var pairs, illegal, nulls, special, nodes atomic.Int64
	roots := universe.AllRoots()
	depth := ev.Pick(r, 2, 3)
	clocks := []int{0, 63, 64, 99, 100}
	type job struct {
		p refchess.Pos
		d int
	}
	var jobs []job
	for i, root := range roots {
		jobs = append(jobs, job{root.Pos, depth})
		if i%4 == int(r.Seed%4) || r.Thorough() {
			for _, q := range clockVariants(root.Pos, clocks) {
				jobs = append(jobs, job{q, depth - 1})
			}
		}
	}
	ev.Parallel(len(jobs), func(worker, item int) {
		if r.Expired() {
			return
		}
		j := jobs[item]
		w := &c03Walker{r: r, b: eng.Load(&j.p), ms: move.NewStore(), rootFEN: j.p.FEN(), pairs: &pairs, illegal: &illegal, nulls: &nulls, special: &special}
		w.walk(j.d)
		nodes.Add(1)
		if item%60 == 0 {
			r.Sample(map[string]any{"root": j.p.FEN(), "depth": j.d, "every generated move and the null move made+undone at every node": true})
		}
	})
	r.Set("u2_roots", len(jobs))
	r.Set("u2_depth", depth)

	// U1: every position of the 3-man classes (+ seed-selected 4-man), nested 1 deep
	classes := universe.ThreeMan()
	classes = append(classes, parseClasses(seedPick(fourMan, r.Seed+3, ev.Pick(r, 0, 6)))...)
	r.Set("classes", classNames(classes))
	type worker struct {
		ld eng.Loader
		w  c03Walker
	}
	var u1 atomic.Int64
	forClasses(r, classes, universe.Opts{}, func() *worker {
		return &worker{w: c03Walker{r: r, ms: move.NewStore(), pairs: &pairs, illegal: &illegal, nulls: &nulls, special: &special}}
	}, func(w *worker, p *refchess.Pos) {
		u1.Add(1)
		w.w.b = w.ld.Load(p)
		w.w.rootFEN = "" // filled in lazily by fail (FEN printing is too slow for the hot path)
		w.w.rootPos = p
		w.w.path = w.w.path[:0]
		w.w.walk(1)
	})
	r.Set("u1_positions", u1.Load())

	// long lines: clocks beyond 100, deep nesting (make 120 plies, then undo all)
	c03LongLines(r, &pairs)

	r.States.Store(u1.Load() + nodes.Load())
	r.Transitions.Store(pairs.Load())
	r.Validated.Store(pairs.Load())
	r.Evals.Store(pairs.Load())
	r.Nontrivial.Store(illegal.Load() + nulls.Load() + special.Load())
	r.Set("distinct_outcomes", map[string]int64{"illegal_pseudo_legal_pairs": illegal.Load(), "null_move_pairs": nulls.Load(), "castling_promotion_enpassant_pairs": special.Load()})
	r.Set("rule", "explicit-state DFS whose transitions are the real MakeMove/MakeNullMove: at every node of the trees below the root corpus (plus half-move-clock variants 63/64/99/100) and of every position of the listed classes, every generated pseudo-legal move and the null move is made, nested below legal ones, undone (plus lines of 170-400 plies made and unwound completely), and the deep snapshot (three placement encodings, side, rights, ep, both counters, whole hash history) compared; non-trivial = illegal pseudo-legal, null, castling/promotion/en-passant pairs")
	r.Assume("snapshot taken through the verif hook board.VerifSnapshotInto")
}

// c03LongLines makes long deterministic lines then undoes them all, comparing
// the snapshot taken at every level on the way back (deep nesting, clocks
// beyond 100).
func c03LongLines(r *ev.Run, pairs *atomic.Int64) {
	roots := []string{
		"4k3/8/8/8/8/8/8/4K2R w K - 90 1",
		"r3k2r/8/8/8/8/8/8/R3K2R w KQkq - 60 30",
		"4k2n/8/8/8/8/8/8/N3K3 w - - 100 40",
	}
	plies := ev.Pick(r, 170, 400) // beyond the initial capacity of the hash history (128) and beyond clock 127
	for _, fen := range roots {
		p := refchess.MustFEN(fen)
		b := eng.Load(&p)
		var snaps []board.VerifSnap
		var revs []board.Reverse
		var mvs []move.Move
		var names []string
		for i := 0; i < plies; i++ {
			var buf [256]refchess.Move
			lm := p.LegalMoves(buf[:0])
			if len(lm) == 0 {
				break
			}
			m := lm[(i*7)%len(lm)]
			var s board.VerifSnap
			b.VerifSnapshotInto(&s)
			snaps = append(snaps, s)
			// a pass made and taken back at every ply of the line (whatever the clock has reached)
			if !p.InCheck(int(p.Stm)) {
				b.UndoNullMove(b.MakeNullMove())
				pairs.Add(1)
				var s2 board.VerifSnap
				b.VerifSnapshotInto(&s2)
				if d := snapEqual(&s, &s2); d != "" {
					r.Fail("undo-null/"+d[:min(len(d), 12)], c03Case{FEN: fen, Moves: append([]string(nil), names...), Move: "0000"}, "%s after %d plies (half-move clock %d): make+undo of the null move changed the %s", fen, i, s.FiftyCnt, d)
					break
				}
			}
			em := move.Move(m.Enc())
			revs = append(revs, b.MakeMove(em))
			mvs = append(mvs, em)
			names = append(names, m.String())
			p = p.Make(m)
		}
		for i := len(mvs) - 1; i >= 0; i-- {
			b.UndoMove(mvs[i], revs[i])
			pairs.Add(1)
			var s board.VerifSnap
			b.VerifSnapshotInto(&s)
			if d := snapEqual(&snaps[i], &s); d != "" {
				cls := "undo/" + d[:min(len(d), 12)]
				if snaps[i].FiftyCnt < 0 || int(snaps[i].FiftyCnt)+1 > 127 {
					cls = "undo/clock-beyond-127"
				}
				r.Fail(cls, c03Case{FEN: fen, Moves: names[:i], Move: names[i]}, "%s after %d plies: undo of %s changed the %s", fen, i, names[i], d)
				break
			}
		}
	}
}
