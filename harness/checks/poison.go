package checks

import (
	"encoding/json"
	"fmt"
	"sync/atomic"

	"github.com/paulsonkoly/chess-3/board"
	. "github.com/paulsonkoly/chess-3/chess"
	"github.com/paulsonkoly/chess-3/move"
	"github.com/paulsonkoly/chess-3/search"
	"github.com/paulsonkoly/chess-3/transp"

	"verif/eng"
	"verif/ev"
	"verif/refchess"
)

// Poisoned tables — the "table state" axis of C06/C07 made exhaustive at one entry: the table entry of a
// position X (the root, or a position one move below it) holds an ARBITRARY move encoding, exactly what a
// colliding entry of another position leaves behind (16 signature bits per entry). For every from/to pair
// (and every value of the promotion bits where a pawn of the side to move stands on from) the search must
// still return a legal move and report legal variations.

type poisonCase struct {
	FEN   string `json:"fen"`
	Child string `json:"child,omitempty"` // the entry poisoned is that of the position after this move ("" = the root)
	Enc   uint16 `json:"encoding"`
	Depth int    `json:"depth"`
}

var poisonRoots = []string{
	"7k/2n5/N7/5P2/4P3/3q4/5K2/8 w - - 0 1",  // enemy piece diagonally behind a pawn
	"8/5k2/3Q4/4p3/5p2/n7/2N5/7K b - - 0 1",  // the same for Black
	"k7/8/8/K2Pp2r/8/8/8/8 w - e6 0 1",       // en passant available (and pinned)
	"4k3/8/8/8/3pP3/8/8/4K3 b - e3 0 1",      // en passant for Black
	"1k6/8/7p/5ppP/7K/6PP/8/8 w - g6 0 1",    // the only legal move is an en-passant capture
	"r3k2r/8/8/8/8/3r4/8/R3K2R w KQkq - 0 1", // castling through / out of attack
	"r3k2r/8/8/8/8/8/8/1R2K2R b Kkq - 0 1",   // black castling, b8 attacked
	"8/P7/8/8/8/8/7p/K1k5 w - - 0 1",         // promotions
	"4k3/8/8/8/8/8/4p3/R3K2R b KQ - 0 1",     // promotion with check threats, castling rights around
	"6rk/5Npp/8/8/8/8/8/4K3 b - - 0 1",       // smothered: in check, no move
	"7k/5Q2/6K1/8/8/8/8/8 b - - 0 1",         // stalemate
	"2K5/8/2k5/8/8/8/8/r7 w - - 0 1",         // single reply
	"r3k2r/p1ppqpb1/bn2pnp1/3PN3/1p2P3/2N2Q1p/PPPBBPPP/R3K2R w KQkq - 0 1",
	"r3k2r/p1ppqpb1/bn2pnp1/3PN3/1p2P3/2N2Q1p/PPPBBPPP/R3K2R b KQkq - 0 1",
	"rnbqkbnr/pppppppp/8/8/8/8/PPPPPPPP/RNBQKBNR w KQkq - 0 1",
	"r1bqkbnr/pppp1ppp/2n5/4p3/4P3/5N2/PPPP1PPP/RNBQKB1R w KQkq - 2 3",
	"8/2p5/3p4/KP5r/1R3p1k/8/4P1P1/8 w - - 0 1",
	"r4rk1/1pp1qppp/p1np1n2/2b1p1B1/2B1P1b1/P1NP1N2/1PP1QPPP/R4RK1 w - - 0 10",
}

// poisonEncodings lists the encodings tried for the position p: every from/to pair, plus the seven non-zero
// values of the promotion bits where a pawn of the side to move stands on the from square.
func poisonEncodings(p *refchess.Pos, all bool) []uint16 {
	var out []uint16
	for from := 0; from < 64; from++ {
		k := p.Sq[from]
		own := (k > 0 && p.Stm == 0) || (k < 0 && p.Stm == 1)
		if !all && !own {
			continue
		}
		for to := 0; to < 64; to++ {
			if to == from {
				continue
			}
			out = append(out, uint16(to)|uint16(from)<<6)
			if own && (k == refchess.Pawn || k == -refchess.Pawn) {
				for pr := 1; pr < 8; pr++ {
					out = append(out, uint16(to)|uint16(from)<<6|uint16(pr)<<12)
				}
			}
		}
	}
	return out
}

// poisonOne runs one search with the poisoned entry in place. It returns the C06 verdict and the C07 verdict.
func poisonOne(s *search.Search, c poisonCase) (moveCls, moveMsg, pvCls, pvMsg string) {
	h, err := newHistory(c.FEN, nil)
	if err != nil {
		return
	}
	s.Clear()
	var hash board.Hash
	if c.Child == "" {
		hash = h.B.Hash()
	} else {
		var buf [256]refchess.Move
		for _, m := range h.Pos.LegalMoves(buf[:0]) {
			if m.String() == c.Child {
				r := h.B.MakeMove(move.Move(m.Enc()))
				hash = h.B.Hash()
				h.B.UndoMove(move.Move(m.Enc()), r)
			}
		}
	}
	_, _, gen := s.VerifDigest()
	s.VerifTable().Insert(hash, transp.Gen(gen), 0, 0, move.Move(c.Enc), 0, transp.LowerBound)
	var before, after board.VerifSnap
	h.B.VerifSnapshotInto(&before)
	req := searchReq{FEN: c.FEN, Depth: c.Depth, Nodes: -1, SoftNodes: -1, TT: 32000}
	res := runSearch(s, h.B, req)
	h.B.VerifSnapshotInto(&after)
	if d := snapEqual(&before, &after); d != "" {
		moveCls, moveMsg = "board-changed", "the board differs after the search: "+d
	} else {
		moveCls, moveMsg = judgeMove(h, req, &res)
	}
	pvCls, pvMsg = judgePV(h, &res)
	return
}

func poisonReplay(prop string, raw json.RawMessage) (bool, string) {
	var c poisonCase
	if err := json.Unmarshal(raw, &c); err != nil {
		return false, err.Error()
	}
	mc, mm, pc, pm := poisonOne(search.New(32000), c)
	if prop == "C06" {
		return mc != "", mm
	}
	if pc != "" {
		return true, pm
	}
	return mc == "illegal-move", mm
}

// poisonSweep enumerates the poisoned tables; prop selects which verdicts are reported ("C06": the move and
// the board; "C07": the variations, and the returned move as the head of the last variation).
func poisonSweep(r *ev.Run, prop string) (searches int64) {
	type job struct {
		fen, child string
		enc        []uint16
		depth      int
	}
	var jobs []job
	childRoots := ev.Pick(r, 5, 12)
	for i, fen := range poisonRoots {
		p, err := refchess.ParseFEN(fen)
		if err != nil {
			continue
		}
		all := poisonEncodings(&p, true)
		for lo := 0; lo < len(all); lo += 512 {
			jobs = append(jobs, job{fen, "", all[lo:min(lo+512, len(all))], 2})
		}
		if i >= childRoots {
			continue
		}
		var buf [256]refchess.Move
		for _, m := range p.LegalMoves(buf[:0]) {
			c := p.Make(m)
			jobs = append(jobs, job{fen, m.String(), poisonEncodings(&c, false), 3})
		}
	}
	var n atomic.Int64
	ev.Parallel(len(jobs), func(worker, item int) {
		j := jobs[item]
		s := search.New(32000)
		for _, enc := range j.enc {
			if r.Expired() {
				return
			}
			c := poisonCase{j.fen, j.child, enc, j.depth}
			mc, mm, pc, pm := poisonOne(s, c)
			n.Add(1)
			where := "the root's"
			if j.child != "" {
				where = "the entry of the position after " + j.child + ":"
			}
			if prop == "C06" && mc != "" {
				r.Fail("poisoned/"+mc, c, "%s, %s table entry holds encoding %d (%s), depth %d: %s", j.fen, where, enc, engName(enc), j.depth, mm)
			}
			if prop == "C07" {
				if pc != "" {
					r.Fail("poisoned/"+pc, c, "%s, %s table entry holds encoding %d (%s), depth %d: %s", j.fen, where, enc, engName(enc), j.depth, pm)
				} else if mc == "illegal-move" {
					r.Fail("poisoned/"+mc, c, "%s, %s table entry holds encoding %d (%s), depth %d: %s", j.fen, where, enc, engName(enc), j.depth, mm)
				}
			}
		}
	})
	return n.Load()
}

func engName(enc uint16) string {
	return fmt.Sprintf("%s, promotion bits %d", eng.Name(enc&0xfff), enc>>12)
}

var _ = Depth(0)

// deepSweep: very deep searches of trivially searchable endings - variations of 45 to 63 moves, iteration depths up to
// the engine's maximum (the variation buffers and the text of a reported line at their geometric limits).
func deepSweep(r *ev.Run, prop string) int64 {
	type job struct {
		fen   string
		depth int
	}
	jobs := []job{
		{"8/8/8/4k3/8/8/4P3/4K3 w - - 0 1", 63}, {"8/8/8/4k3/8/8/4P3/4K3 b - - 0 1", ev.Pick(r, 54, 63)}, {"8/8/8/8/4k3/8/4P3/4K3 b - - 0 1", ev.Pick(r, 50, 63)},
		{"k7/8/8/8/8/8/8/K6N w - - 0 1", 63}, {"7k/8/8/8/8/8/8/KR6 w - - 0 1", ev.Pick(r, 40, 63)}, {"8/8/8/4k3/8/8/4P3/4K3 w - - 0 1", 40}, {"4k3/4p3/8/8/4K3/8/8/8 b - - 0 1", ev.Pick(r, 48, 63)},
	}
	var n atomic.Int64
	ev.Parallel(len(jobs), func(worker, item int) {
		j := jobs[item]
		h, err := newHistory(j.fen, nil)
		if err != nil {
			return
		}
		req := searchReq{FEN: j.fen, Depth: j.depth, Nodes: -1, SoftNodes: -1, TT: 8 << 20}
		res := runSearch(search.New(req.TT), h.B, req)
		n.Add(1)
		longest := 0
		for _, il := range res.Infos {
			longest = max(longest, len(il.PV))
		}
		r.Sample(map[string]any{"deep_search": j.fen, "depth": j.depth, "longest_reported_variation": longest, "nodes": res.Nodes})
		if prop == "C06" {
			if cls, msg := judgeMove(h, req, &res); cls != "" {
				r.Fail("deep/"+cls, c06Case{Req: req}, "%s depth %d: %s", j.fen, j.depth, msg)
			}
			return
		}
		if cls, msg := judgePV(h, &res); cls != "" {
			r.Fail("deep/"+cls, c07Case{Req: req}, "%s depth %d: %s", j.fen, j.depth, msg)
		}
	})
	return n.Load()
}

// saturatedSweep — the "state accumulated over many searches" axis made explicit: the move ordering stores of the
// instance are driven by real FailHigh calls (as C16 does) until the entries of the root's moves are saturated upwards,
// downwards or alternately, with an empty and a two-move history stack; the search must still find its way.
type saturatedCase struct {
	Req   searchReq `json:"request"`
	Kind  string    `json:"histories"` // "up", "down", "alt"
	Stack int       `json:"stack_moves"`
}

func saturatedOne(c saturatedCase) (cls, msg string, res searchRes, h *history) {
	h, err := newHistory(c.Req.FEN, c.Req.Moves)
	if err != nil {
		return
	}
	s := search.New(c.Req.TT)
	ms := move.NewStore()
	c16FillRanker(s.VerifRanker(), c.Kind, h.B, ms, c16Stack(c.Stack))
	var before, after board.VerifSnap
	h.B.VerifSnapshotInto(&before)
	res = runSearch(s, h.B, c.Req)
	h.B.VerifSnapshotInto(&after)
	if d := snapEqual(&before, &after); d != "" {
		return "board-changed", "the board differs after the search: " + d, res, h
	}
	cls, msg = judgeMove(h, c.Req, &res)
	return
}

func saturatedSweep(r *ev.Run, prop string, roots []searchReq) int64 {
	var n atomic.Int64
	ev.Parallel(len(roots), func(worker, item int) {
		for _, kind := range []string{"up", "down", "alt"} {
			for _, stk := range []int{0, 2} {
				if r.Expired() {
					return
				}
				q := roots[item]
				q.Depth, q.TT, q.Nodes, q.SoftNodes = 3, 32000, -1, -1
				c := saturatedCase{q, kind, stk}
				cls, msg, res, h := saturatedOne(c)
				if h == nil {
					continue
				}
				n.Add(1)
				if prop == "C07" {
					cls, msg = judgePV(h, &res)
				}
				if cls != "" {
					r.Fail("saturated-histories/"+cls, c, "%+v with the history tables saturated (%s, %d stack moves): %s", q, kind, stk, msg)
				}
			}
		}
	})
	return n.Load()
}

func saturatedReplay(prop string, raw json.RawMessage) (bool, string) {
	var c saturatedCase
	if err := json.Unmarshal(raw, &c); err != nil {
		return false, err.Error()
	}
	cls, msg, res, h := saturatedOne(c)
	if h != nil && prop == "C07" {
		cls, msg = judgePV(h, &res)
	}
	return cls != "", msg
}
