// Package ttmodel is the reference model of the transposition table: per
// (bucket, signature) the latest accepted store, with the keep-deeper and
// keep-move rules and mate re-basing, exactly as the property states them.
package ttmodel

import "fmt"

const (
	Upper = 0
	Lower = 1
	Exact = 2

	Inf      = 10000
	MaxPlies = 64
)

// Store is one Insert operation.
type Store struct {
	Key   uint64
	Gen   uint8
	Depth int8
	Ply   int8
	Move  uint16
	Value int16
	Type  uint8
}

// Rec is what the model remembers for a (bucket, signature).
type Rec struct {
	Depth    int8
	Type     uint8
	Value    int16 // as stored by the caller
	StorePly int8
	Gen      uint8
	Move     uint16
}

type slotKey struct {
	Bucket int
	Sig    uint16
}

// Model maps (bucket, signature) to the live record.
type Model struct {
	live map[slotKey]Rec
}

func New() *Model { return &Model{live: map[slotKey]Rec{}} }

func Sig(key uint64) uint16 { return uint16(key >> 48) }

func (m *Model) Clear() { clear(m.live) }

// Insert applies the store. bucket is the bucket of s.Key as reported by the
// implementation. It reports whether the record for the key is new (and may
// therefore have displaced one other record of the bucket).
func (m *Model) Insert(bucket int, s Store) (fresh bool) {
	k := slotKey{bucket, Sig(s.Key)}
	old, ok := m.live[k]
	if ok && s.Type != Exact && old.Depth > s.Depth+2 && old.Gen == s.Gen {
		return false // a bound does not displace a same-search entry more than two plies deeper
	}
	mv := s.Move
	if mv == 0 && ok {
		mv = old.Move // the latest non-null move stored for it while it stayed in the table
	}
	m.live[k] = Rec{Depth: s.Depth, Type: s.Type, Value: s.Value, StorePly: s.Ply, Gen: s.Gen, Move: mv}
	return !ok
}

// Get returns the live record for (bucket, sig of key).
func (m *Model) Get(bucket int, key uint64) (Rec, bool) {
	r, ok := m.live[slotKey{bucket, Sig(key)}]
	return r, ok
}

// Evict forgets a record (the implementation displaced it).
func (m *Model) Evict(bucket int, key uint64) { delete(m.live, slotKey{bucket, Sig(key)}) }

// LiveIn counts live records of a bucket.
func (m *Model) LiveIn(bucket int) int {
	n := 0
	for k := range m.live {
		if k.Bucket == bucket {
			n++
		}
	}
	return n
}

// Expected is the value a probe at ply must return for r. For the exact
// boundary +-(Inf-MaxPlies) the statement leaves open whether the score is a
// mate distance; alt is then the other admissible answer (otherwise alt == v).
func (r Rec) Expected(ply int8) (v, alt int16) {
	switch {
	case r.Value > Inf-MaxPlies:
		v = r.Value + int16(r.StorePly) - int16(ply)
		return v, v
	case r.Value < -Inf+MaxPlies:
		v = r.Value - int16(r.StorePly) + int16(ply)
		return v, v
	case r.Value == Inf-MaxPlies:
		return r.Value, r.Value + int16(r.StorePly) - int16(ply)
	case r.Value == -Inf+MaxPlies:
		return r.Value, r.Value - int16(r.StorePly) + int16(ply)
	}
	return r.Value, r.Value
}

func (r Rec) String() string {
	return fmt.Sprintf("{depth %d type %d value %d@ply%d gen %d move %d}", r.Depth, r.Type, r.Value, r.StorePly, r.Gen, r.Move)
}
