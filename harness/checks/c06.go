package checks

import (
	"encoding/json"
	"fmt"
	"strings"
	"sync/atomic"

	"github.com/paulsonkoly/chess-3/board"
	"github.com/paulsonkoly/chess-3/search"

	"verif/ev"
	"verif/refchess"
	"verif/universe"
)

// C06 — search returns a legal move unless the game is over; board untouched.

type c06Case struct {
	Req  searchReq `json:"request"`
	Then string    `json:"then,omitempty"` // "second-go": the failure is in a second search on the same instance
}

// c06Histories: roots that need a game history (third occurrence, second occurrence).
var c06Histories = []searchReq{
	{FEN: "rnbqkbnr/pppppppp/8/8/8/8/PPPPPPPP/RNBQKBNR w KQkq - 0 1", Moves: []string{"g1f3", "g8f6", "f3g1", "f6g8", "g1f3", "g8f6", "f3g1", "f6g8"}},
	{FEN: "rnbqkbnr/pppppppp/8/8/8/8/PPPPPPPP/RNBQKBNR w KQkq - 0 1", Moves: []string{"g1f3", "g8f6", "f3g1", "f6g8"}},
	{FEN: "4k3/8/8/8/8/8/4P3/4K2R w K - 0 1", Moves: []string{"h1h2", "e8d8", "h2h1", "d8e8", "h1h2", "e8d8", "h2h1", "d8e8"}},
	{FEN: "6k1/5q2/8/8/8/8/5PPP/6K1 b - - 0 1", Moves: []string{"f7f4", "g1h1", "f4g4", "h1g1", "g4f4", "g1h1", "f4g4", "h1g1"}},
	{FEN: "7k/8/8/8/8/8/r7/1R5K w - - 96 70", Moves: []string{"b1c1", "a2b2", "c1d1"}},
	// look-alikes: the root has the placement and side of two earlier positions, but the first of them still had a
	// castling right (or a capturable en-passant pawn) that is gone now: second occurrence, not third - the game goes on
	{FEN: "r3k2r/pppppppp/8/8/8/8/PPPPPPPP/R3K2R w KQkq - 0 1", Moves: []string{"a1b1", "a8b8", "b1a1", "b8a8", "a1b1", "a8b8", "b1a1", "b8a8"}},
	{FEN: "r3k2r/pppppppp/8/8/8/8/PPPPPPPP/R3K2R w KQkq - 0 1", Moves: []string{"h1g1", "h8g8", "g1h1", "g8h8", "h1g1", "h8g8", "g1h1", "g8h8"}},
	{FEN: "r3k2r/pppppppp/8/8/8/8/PPPPPPPP/R3K2R w KQkq - 0 1", Moves: []string{"e1f1", "e8f8", "f1e1", "f8e8", "e1f1", "e8f8", "f1e1", "f8e8"}},
	{FEN: "r3k2r/pppppppp/8/8/8/8/PPPPPPPP/R3K2R w KQkq - 0 1", Moves: []string{"a1b1", "e8f8", "b1a1", "f8e8", "a1b1", "e8f8", "b1a1", "f8e8"}},
	{FEN: "r3k3/pppppppp/8/8/8/8/PPPPPPPP/4K1N1 w q - 0 1", Moves: []string{"g1f3", "a8b8", "f3g1", "b8a8", "g1f3", "a8b8", "f3g1", "b8a8"}},
	{FEN: "4k2r/pppppppp/8/8/8/8/PPPPPPPP/4K1N1 w k - 0 1", Moves: []string{"g1f3", "h8g8", "f3g1", "g8h8", "g1f3", "h8g8", "f3g1", "g8h8"}},
	{FEN: "4k1n1/pppppppp/8/8/8/8/PPPPPPPP/4K2R w K - 0 1", Moves: []string{"h1g1", "g8f6", "g1h1", "f6g8", "h1g1", "g8f6", "g1h1", "f6g8"}},
	{FEN: "4k1n1/pppppppp/8/8/8/8/PPPPPPPP/R3K3 w Q - 0 1", Moves: []string{"a1b1", "g8f6", "b1a1", "f6g8", "a1b1", "g8f6", "b1a1", "f6g8"}},
	{FEN: "4k3/8/8/8/3p4/8/4P3/4K3 w - - 0 1", Moves: []string{"e2e4", "e8d8", "e1d1", "d8e8", "d1e1", "e8d8", "e1d1", "d8e8", "d1e1"}},
	{FEN: "4k3/4p3/8/3P4/8/8/8/4K3 b - - 0 1", Moves: []string{"e7e5", "e1d1", "e8d8", "d1e1", "d8e8", "e1d1", "e8d8", "d1e1", "d8e8"}},
}

// c06Game is a sequence of searches on one instance; the last one fails.
type c06Game struct {
	Requests []searchReq `json:"requests"`
}

type c06Runner struct {
	r      *ev.Run
	s      *search.Search
	tt     int
	before board.VerifSnap
	after  board.VerifSnap
}

// one runs a request on a cleared instance and applies the C06 (and
// optionally further) oracles. It returns the result.
func (c *c06Runner) one(h *history, req searchReq, extra func(h *history, req searchReq, res *searchRes)) *searchRes {
	c.s.Clear()
	h.B.VerifSnapshotInto(&c.before)
	res := runSearch(c.s, h.B, req)
	h.B.VerifSnapshotInto(&c.after)
	if d := snapEqual(&c.before, &c.after); d != "" {
		c.r.Fail("board-changed", c06Case{Req: req}, "%+v: the board differs after the search: %s", req, d)
		nh, err := newHistory(req.FEN, req.Moves)
		if err == nil {
			*h = *nh
		}
	}
	if cls, msg := judgeMove(h, req, &res); cls != "" {
		c.r.Fail(cls, c06Case{Req: req}, "%+v: %s", req, msg)
	}
	if extra != nil {
		extra(h, req, &res)
	}
	// the same instance can be searched again
	req2 := req
	req2.Depth, req2.Nodes, req2.SoftNodes = 1, -1, -1
	h.B.VerifSnapshotInto(&c.before)
	res2 := runSearch(c.s, h.B, req2)
	h.B.VerifSnapshotInto(&c.after)
	if d := snapEqual(&c.before, &c.after); d != "" {
		c.r.Fail("board-changed", c06Case{Req: req, Then: "second-go"}, "%+v then a depth-1 search: the board differs after the second search: %s", req, d)
	}
	if cls, msg := judgeMove(h, req2, &res2); cls != "" {
		c.r.Fail("second-go/"+cls, c06Case{Req: req, Then: "second-go"}, "%+v then a depth-1 search on the same instance: %s", req, msg)
	}
	return &res
}

func c06Replay(class string, raw json.RawMessage) (bool, string) {
	if strings.HasPrefix(class, "poisoned/") {
		return poisonReplay("C06", raw)
	}
	if strings.HasPrefix(class, "saturated-histories/") {
		return saturatedReplay("C06", raw)
	}
	if strings.HasPrefix(class, "stop/") {
		var c c06StopCase
		if err := json.Unmarshal(raw, &c); err != nil {
			return false, err.Error()
		}
		if !Instrumented {
			return false, "a stop-poll fault plan can only be replayed by the instrumented binary (bin/check C06 --replay)"
		}
		cls, msg, _ := c06StopOne(search.New(32000), c.FEN, c.Depth, c.StopAt)
		return cls != "", msg
	}
	var c c06Case
	if err := json.Unmarshal(raw, &c); err != nil {
		return false, err.Error()
	}
	if c.Req.FEN == "" {
		var g c06Game
		if json.Unmarshal(raw, &g) == nil && len(g.Requests) > 0 {
			s := search.New(g.Requests[0].TT)
			for i, q := range g.Requests {
				h, err := newHistory(q.FEN, q.Moves)
				if err != nil {
					return false, err.Error()
				}
				res := runSearch(s, h.B, q)
				if i == len(g.Requests)-1 {
					if cls, msg := judgeMove(h, q, &res); cls != "" {
						return true, msg
					}
				}
			}
			return false, "every search of the sequence returns a legal move"
		}
		return c06ReplayUCI(raw)
	}
	h, err := newHistory(c.Req.FEN, c.Req.Moves)
	if err != nil {
		return false, err.Error()
	}
	bad := ""
	rn := &c06Runner{r: ev.New("C06", "quick", "fault_enumeration"), s: search.New(c.Req.TT), tt: c.Req.TT}
	rn.one(h, c.Req, nil)
	if rn.r.Failed() {
		bad = "reproduces (see the message of the replay file)"
	}
	return bad != "", bad
}

func init() {
	register(&Check{ID: "C06", Level: "fault_enumeration", Run: runC06, Replay: c06Replay})
}

// c06Roots assembles the root requests (FEN + history).
func c06Roots(r *ev.Run) []searchReq {
	var out []searchReq
	for _, root := range universe.SpecialRoots() {
		out = append(out, searchReq{FEN: root.FEN})
	}
	out = append(out, c06Histories...)
	pr := universe.PerftRoots()
	br := universe.BenchRoots()
	n := ev.Pick(r, 18, 40)
	for i := 0; i < n; i++ {
		out = append(out, searchReq{FEN: pr[(i*5+int(r.Seed))%len(pr)].FEN})
		out = append(out, searchReq{FEN: br[(i*3+int(r.Seed))%len(br)].FEN})
	}
	return out
}

func runC06(r *ev.Run) {
	var searches, abortPoints, finals, nullReturns, fallbacks atomic.Int64
	roots := c06Roots(r)
	depths := ev.Pick(r, []int{1, 2, 3}, []int{1, 2, 3, 4, 5})
	tts := []int{32000, 1 << 20}
	type job struct {
		req searchReq
	}
	var jobs []job
	for _, root := range roots {
		for _, d := range depths {
			for _, tt := range tts {
				if tt != 32000 && d != 2 {
					continue
				}
				q := root
				q.Depth, q.TT, q.Nodes, q.SoftNodes = d, tt, -1, -1
				jobs = append(jobs, job{q})
			}
		}
	}
	maxSweep := ev.Pick(r, 1500, 20000)
	ev.Parallel(len(jobs), func(worker, item int) {
		if r.Expired() {
			return
		}
		req := jobs[item].req
		h, err := newHistory(req.FEN, req.Moves)
		if err != nil {
			r.Fail("harness", c06Case{Req: req}, "bad root: %v", err)
			return
		}
		rn := &c06Runner{r: r, s: search.New(req.TT), tt: req.TT}
		count := func(h *history, q searchReq, res *searchRes) {
			searches.Add(1)
			if res.Move == 0 {
				nullReturns.Add(1)
			}
			if res.aborted() && len(res.Infos) <= 2 {
				fallbacks.Add(1)
			}
		}
		full := rn.one(h, req, count)
		if fin, _ := h.final(); fin {
			finals.Add(1)
		}
		total := full.Nodes
		// (a) hard node budget k for EVERY k in [0, total+1] (capped: dense at both ends, strided in the middle)
		ks := budgetPoints(total, maxSweep)
		for _, k := range ks {
			if r.Expired() {
				return
			}
			q := req
			q.Nodes = k
			abortPoints.Add(1)
			rn.one(h, q, count)
		}
		// the same budgets again on ONE instance that is never cleared (as a GUI drives the engine: many
		// early-aborted searches in a row): legality and the board only
		if req.TT == 32000 && req.Depth <= 2 {
			ps := search.New(req.TT)
			var sa, sb board.VerifSnap
			for rep := 0; rep < 3; rep++ {
				for _, k := range budgetPoints(min(total, 40), 200) {
					q := req
					q.Nodes = k
					h.B.VerifSnapshotInto(&sa)
					res := runSearch(ps, h.B, q)
					h.B.VerifSnapshotInto(&sb)
					abortPoints.Add(1)
					searches.Add(1)
					if d := snapEqual(&sa, &sb); d != "" {
						r.Fail("persistent/board-changed", c06Case{Req: q}, "%+v on an instance that was never cleared: the board differs after the search: %s", q, d)
						return
					}
					if cls, msg := judgeMove(h, q, &res); cls != "" {
						r.Fail("persistent/"+cls, c06Case{Req: q}, "%+v after %d searches on an instance that was never cleared: %s", q, rep*42+k, msg)
						return
					}
				}
			}
		}
		// (c) soft node limit firing at every iteration boundary
		for _, il := range full.Infos {
			if il.Complete && il.Nodes > 0 {
				q := req
				q.SoftNodes = il.Nodes - 1
				abortPoints.Add(1)
				rn.one(h, q, count)
			}
		}
		if item%25 == 0 {
			r.Sample(map[string]any{"request": req, "nodes_of_full_search": total, "hard_budgets_swept": len(ks)})
		}
	})

	// all positions of a 3-man class at small depth with a few budgets
	classes := parseClasses(seedPick([]string{"KRk", "KQk", "KPk", "Kkp", "Kkr", "Kkq"}, r.Seed, ev.Pick(r, 1, 3)))
	r.Set("classes", classNames(classes))
	type worker struct {
		rn *c06Runner
	}
	var cls atomic.Int64
	stride := int64(ev.Pick(r, 3, 1))
	forClasses(r, classes, universe.Opts{NoEP: true}, func() *worker {
		return &worker{rn: &c06Runner{r: r, s: search.New(32000), tt: 32000}}
	}, func(w *worker, p *refchess.Pos) {
		if cls.Add(1)%stride != 0 {
			return
		}
		fen := p.FEN()
		h, err := newHistory(fen, nil)
		if err != nil {
			return
		}
		for _, k := range []int{-1, 0, 1, 5, 17} {
			searches.Add(1)
			abortPoints.Add(1)
			w.rn.one(h, searchReq{FEN: fen, Depth: 2, Nodes: k, SoftNodes: -1, TT: 32000}, nil)
		}
	})
	r.Set("class_positions_searched", cls.Load()/stride)

	// sequences of searches on ONE instance along games (tables, histories and
	// buffers carried over), including games that run into the fifty-move rule
	// and into repetitions: every result judged
	var gameSearches atomic.Int64
	games := c08Games(r)
	ev.Parallel(len(games), func(worker, item int) {
		g := games[item]
		h, err := newHistory(g.start.FEN, g.start.Moves)
		if err != nil {
			return
		}
		s := search.New(g.tt)
		var snapA, snapB board.VerifSnap
		moves := append([]string(nil), g.start.Moves...)
		var reqs []searchReq
		for ply := 0; ply < g.plies+6 && !r.Expired(); ply++ {
			q := searchReq{FEN: g.start.FEN, Moves: append([]string(nil), moves...), Depth: g.depth, Nodes: -1, SoftNodes: g.soft, TT: g.tt}
			if ply%4 == 3 {
				q.Nodes, q.SoftNodes = g.soft/2+ply, -1
			}
			reqs = append(reqs, q)
			h.B.VerifSnapshotInto(&snapA)
			res := runSearch(s, h.B, q)
			h.B.VerifSnapshotInto(&snapB)
			gameSearches.Add(1)
			searches.Add(1)
			if d := snapEqual(&snapA, &snapB); d != "" {
				r.Fail("game/board-changed", c06Game{Requests: reqs}, "search %d of the game from %s: the board differs after the search: %s", ply, g.start.FEN, d)
				return
			}
			if cls, msg := judgeMove(h, q, &res); cls != "" {
				r.Fail("game/"+cls, c06Game{Requests: reqs}, "search %d on one instance along the game from %s (%+v): %s", ply, g.start.FEN, q, msg)
				return
			}
			if res.Move == 0 {
				// final root: search it once more (the instance must keep answering the same way)
				res2 := runSearch(s, h.B, q)
				if cls, msg := judgeMove(h, q, &res2); cls != "" {
					r.Fail("game/"+cls, c06Game{Requests: append(reqs, q)}, "final root searched again on the same instance (%+v): %s", q, msg)
				}
				return
			}
			if h.play(res.Move.String()) != nil {
				return
			}
			moves = append(moves, res.Move.String())
		}
	})
	r.Set("game_searches_on_persistent_instances", gameSearches.Load())

	// (b) the stop channel observed closed at the i-th poll for EVERY i (instrumented fault-plan run:
	// reaches the polls after a child returns, in the quiescence loop and at the root)
	searches.Add(deepSweep(r, "C06"))
	sat := saturatedSweep(r, "C06", roots)
	r.Set("saturated_history_searches", sat)
	searches.Add(sat)
	pz := poisonSweep(r, "C06")
	r.Set("poisoned_table_searches", pz)
	searches.Add(pz)
	stopRuns := c06StopSweep(r)
	r.Set("stop_poll_sweep_searches", stopRuns)
	abortPoints.Add(stopRuns)
	searches.Add(stopRuns)

	// (e) the spsa build with in-range parameter values (thorough tier)
	if r.Thorough() {
		r.Set("spsa_pass", c06SpsaPass(r))
	}

	// (d) through the UCI `go` command with arbitrary numeric arguments
	uciN := c06UCI(r)

	r.Evals.Store(searches.Load() + uciN)
	r.Nontrivial.Store(abortPoints.Load())
	r.Set("searches", searches.Load())
	r.Set("abort_points", abortPoints.Load())
	r.Set("uci_go_commands", uciN)
	r.Set("distinct_outcomes", map[string]int64{"final_roots": finals.Load(), "null_move_returned": nullReturns.Load(), "aborted_before_first_iteration_completed": fallbacks.Load()})
	r.Set("rule", "roots (constructed special roots incl. in-check, single-reply, promotion, clocks 98/99/100, mates, stalemates; histories with second and third occurrences; perft and bench roots) x depth x table size; abort points: hard node budget k for every k in [0, nodes of the full search]+1 (strided beyond the cap, dense at both ends), the soft node limit at every iteration boundary, the stop channel closed at every poll and soft time limits on a virtual clock (instrumented fault plans), the same budgets on a never-cleared instance; very deep searches of simple endings; every root with the history tables saturated upwards / downwards / alternately by real FailHigh calls; poisoned tables (the entry of the root or of a position one move below it holds an arbitrary move encoding, every from/to pair); every position of a 3-man class with budgets {none,0,1,5,17}; `go` through a real driver with numeric edge arguments; oracle: move null or legal, null only on final roots, completed search on a final root returns (0,0) or (0,-Inf), board snapshot unchanged, nodes <= budget, a second search on the same instance obeys the same; non-trivial = aborted searches")
	r.Set("exhaustive", false)
	r.Assume("abort by the stop channel at every poll is enumerated by the instrumented fault-plan run (see C06 stop sweep in evidence when the instrumented binary is available); hard node budgets reach the polls at node entry only")
}

// budgetPoints returns every k in [0,total+1] if that is at most cap points,
// otherwise all k below cap/2, the last cap/4 and a stride in between.
func budgetPoints(total, cap int) []int {
	var ks []int
	if total+2 <= cap {
		for k := 0; k <= total+1; k++ {
			ks = append(ks, k)
		}
		return ks
	}
	lo, hi := cap/2, cap/4
	for k := 0; k < lo; k++ {
		ks = append(ks, k)
	}
	stride := max(1, (total-lo-hi)/(cap/4))
	for k := lo; k < total-hi; k += stride {
		ks = append(ks, k)
	}
	for k := total - hi; k <= total+1; k++ {
		ks = append(ks, k)
	}
	return ks
}

func init() { _ = fmt.Sprint }
