// Package universe enumerates the finite position universes of the checks:
// closed material classes (U1), move trees below a root corpus (U2) and
// constructed families (U3). Everything is deterministic and complete within
// its stated bounds.
package universe

import (
	"sort"
	"strings"

	"verif/refchess"
)

// Class is a material class: the men besides the two kings, as signed kinds.
type Class struct {
	Name string
	Men  []int8
}

// ParseClass reads names such as "KQkr" (upper case White, lower case Black;
// the kings are implied but may be written).
func ParseClass(name string) Class {
	c := Class{Name: name}
	for _, ch := range name {
		ix := strings.IndexRune("PNBRQK", ch)
		sign := int8(1)
		if ix < 0 {
			ix = strings.IndexRune("pnbrqk", ch)
			sign = -1
		}
		if ix < 0 {
			panic("bad class " + name)
		}
		if ix == 5 {
			continue
		}
		c.Men = append(c.Men, sign*int8(ix+1))
	}
	sort.Slice(c.Men, func(i, j int) bool { return c.Men[i] < c.Men[j] })
	return c
}

// ThreeMan lists all 3-man classes.
func ThreeMan() []Class {
	var out []Class
	for _, m := range []string{"KQk", "KRk", "KBk", "KNk", "KPk", "Kkq", "Kkr", "Kkb", "Kkn", "Kkp"} {
		out = append(out, ParseClass(m))
	}
	return out
}

// Opts restricts an enumeration.
type Opts struct {
	// Shards: the enumeration is split by the white king's square into 64
	// shards; Shard selects one (0..63).
	Shard int
	// NoRights: only enumerate with empty castling rights. Otherwise every
	// subset of the rights the placement admits is enumerated.
	NoRights bool
	// NoEP: only enumerate without en-passant target. Otherwise additionally
	// every target the placement admits.
	NoEP bool
	// OnlySpecial: only positions that carry rights or an en-passant target.
	OnlySpecial bool
	// BlackKingIn, if non-nil, restricts the black king to these squares
	// (constrained classes: the defending king confined to a region).
	BlackKingIn []int
	// OnlyStm restricts the side to move (0 = both, 1 = White only, 2 = Black only).
	OnlyStm int
	// Filter, if set, rejects placements early (called before side/rights).
	Filter func(p *refchess.Pos) bool
}

// EnumShard calls fn for every valid position of class c whose white king is
// on square o.Shard. The Pos passed to fn is re-used between calls.
func EnumShard(c Class, o Opts, fn func(p *refchess.Pos)) {
	var p refchess.Pos
	p.Ep = -1
	p.Full = 1
	wk := o.Shard
	p.Sq[wk] = refchess.King
	for bk := 0; bk < 64; bk++ {
		if bk == wk {
			continue
		}
		if o.BlackKingIn != nil {
			in := false
			for _, x := range o.BlackKingIn {
				if x == bk {
					in = true
				}
			}
			if !in {
				continue
			}
		}
		df, dr := bk%8-wk%8, bk/8-wk/8
		if df >= -1 && df <= 1 && dr >= -1 && dr <= 1 {
			continue
		}
		p.Sq[bk] = -refchess.King
		placeMen(&p, c.Men, 0, -1, o, fn)
		p.Sq[bk] = 0
	}
}

func placeMen(p *refchess.Pos, men []int8, i int, prevSq int, o Opts, fn func(p *refchess.Pos)) {
	if i == len(men) {
		finish(p, o, fn)
		return
	}
	start := 0
	if i > 0 && men[i] == men[i-1] {
		start = prevSq + 1 // identical men: ascending squares only
	}
	k := men[i]
	for s := start; s < 64; s++ {
		if p.Sq[s] != 0 {
			continue
		}
		if (k == refchess.Pawn || k == -refchess.Pawn) && (s < 8 || s >= 56) {
			continue
		}
		p.Sq[s] = k
		placeMen(p, men, i+1, s, o, fn)
		p.Sq[s] = 0
	}
}

func finish(p *refchess.Pos, o Opts, fn func(p *refchess.Pos)) {
	if o.Filter != nil && !o.Filter(p) {
		return
	}
	var avail uint8
	if !o.NoRights {
		if p.Sq[4] == refchess.King {
			if p.Sq[7] == refchess.Rook {
				avail |= refchess.WK
			}
			if p.Sq[0] == refchess.Rook {
				avail |= refchess.WQ
			}
		}
		if p.Sq[60] == -refchess.King {
			if p.Sq[63] == -refchess.Rook {
				avail |= refchess.BK
			}
			if p.Sq[56] == -refchess.Rook {
				avail |= refchess.BQ
			}
		}
	}
	for stm := int8(0); stm < 2; stm++ {
		if (o.OnlyStm == 1 && stm != 0) || (o.OnlyStm == 2 && stm != 1) {
			continue
		}
		p.Stm = stm
		if p.InCheck(int(stm) ^ 1) {
			continue
		}
		// ep candidates
		var eps [9]int8
		ne := 0
		eps[ne] = -1
		ne++
		if !o.NoEP {
			if stm == refchess.White {
				for f := 0; f < 8; f++ {
					if p.Sq[32+f] == -refchess.Pawn && p.Sq[40+f] == 0 && p.Sq[48+f] == 0 {
						eps[ne] = int8(40 + f)
						ne++
					}
				}
			} else {
				for f := 0; f < 8; f++ {
					if p.Sq[24+f] == refchess.Pawn && p.Sq[16+f] == 0 && p.Sq[8+f] == 0 {
						eps[ne] = int8(16 + f)
						ne++
					}
				}
			}
		}
		sub := avail
		for {
			p.Castle = sub
			for e := 0; e < ne; e++ {
				p.Ep = eps[e]
				if o.OnlySpecial && sub == 0 && p.Ep < 0 {
					continue
				}
				fn(p)
			}
			if sub == 0 {
				break
			}
			sub = (sub - 1) & avail
		}
	}
	p.Castle = 0
	p.Ep = -1
	p.Stm = 0
}
