package checks

import (
	"bytes"
	"encoding/json"
	"fmt"
	"io"
	"strings"
	"sync"
	"sync/atomic"

	"github.com/paulsonkoly/chess-3/board"
	"github.com/paulsonkoly/chess-3/move"
	"github.com/paulsonkoly/chess-3/search"
	"github.com/paulsonkoly/chess-3/uci"

	"verif/eng"
	"verif/ev"
	"verif/refchess"
	"verif/universe"
)

// C01 — playable moves = FIDE legal moves (sets, not counts).

type c01Case struct {
	FEN   string   `json:"fen"`             // position (root FEN when Moves is non-empty)
	Moves []string `json:"moves,omitempty"` // moves played from FEN with MakeMove
	How   string   `json:"how"`             // "fen", "played", "reloaded"
}

type c01Worker struct {
	ms *move.Store
	ld eng.Loader
}

// c01Compare checks one engine board against one reference position.
// It returns "" or a description of the disagreement.
func c01Compare(ms *move.Store, b *board.Board, p *refchess.Pos) string {
	var ebuf, rbuf [256]uint16
	got := eng.Playable(ms, b, ebuf[:0])
	want := eng.RefLegalEnc(p, rbuf[:0])
	gs := eng.Sorted(got)
	for i := 1; i < len(gs); i++ {
		if gs[i] == gs[i-1] {
			return fmt.Sprintf("move %s is playable twice", move.Move(gs[i]))
		}
	}
	if !eng.EqualSets(gs, want) {
		return fmt.Sprintf("engine playable %v != legal %v", eng.MoveNames(gs), eng.MoveNames(want))
	}
	return ""
}

// c01ViaUCI plays every legal move of p through the GUI path (`position fen F moves m`) on one driver and
// compares the position the driver ends up in (`fen`) with the one MakeMove produces: a legal move the
// driver does not play is a move the engine does not treat as playable. It returns "" or a description.
func c01ViaUCI(ld *eng.Loader, p *refchess.Pos, lm []refchess.Move) (string, string) {
	var script strings.Builder
	fen := p.FEN()
	for _, m := range lm {
		fmt.Fprintf(&script, "position fen %s moves %s\nfen\n", fen, m.String())
	}
	var out, errb bytes.Buffer
	uci.NewDriver(uci.WithInput(strings.NewReader(script.String())), uci.WithOutput(&out), uci.WithError(&errb), uci.WithSearch(nullSearch{})).Run()
	lines := strings.Split(strings.TrimSpace(out.String()), "\n")
	if len(lines) != len(lm) {
		return "", fmt.Sprintf("%d `fen` commands, %d lines answered", len(lm), len(lines))
	}
	for i, m := range lm {
		b := ld.Load(p)
		b.MakeMove(move.Move(m.Enc()))
		if want := b.FEN(); lines[i] != want {
			return m.String(), fmt.Sprintf("`position fen %s moves %s` leaves the driver at %q, playing the move yields %q", fen, m.String(), lines[i], want)
		}
	}
	return "", ""
}

var c01Searchers = sync.Pool{New: func() any { return search.New(32000) }}

// c01SearchFilter runs a depth-1 search on b (= p) and checks the move it returns against the legal moves of p.
func c01SearchFilter(b *board.Board, p *refchess.Pos) string {
	s := c01Searchers.Get().(*search.Search)
	s.Clear()
	_, mv, _ := s.Go(b, search.WithDepth(1), search.WithOutput(io.Discard))
	c01Searchers.Put(s)
	var buf [256]refchess.Move
	lm := p.LegalMoves(buf[:0])
	if mv == 0 {
		if len(lm) > 0 && p.Half < 100 {
			return fmt.Sprintf("depth-1 search returns no move, %d legal moves exist", len(lm))
		}
		return ""
	}
	for _, m := range lm {
		if m.Enc() == uint16(mv) {
			return ""
		}
	}
	return fmt.Sprintf("depth-1 search plays %s, which is not legal", eng.Name(uint16(mv)))
}

func c01Replay(class string, raw json.RawMessage) (bool, string) {
	var c c01Case
	if err := json.Unmarshal(raw, &c); err != nil {
		return false, err.Error()
	}
	if c.How == "search" {
		p := refchess.MustFEN(c.FEN)
		msg := c01SearchFilter(eng.Load(&p), &p)
		return msg != "", msg
	}
	if c.How == "uci" {
		p := refchess.MustFEN(c.FEN)
		var ld eng.Loader
		var buf [256]refchess.Move
		_, msg := c01ViaUCI(&ld, &p, p.LegalMoves(buf[:0]))
		return msg != "", msg
	}
	p := refchess.MustFEN(c.FEN)
	b := eng.Load(&p)
	for _, ms := range c.Moves {
		var found bool
		var buf [256]refchess.Move
		for _, m := range p.LegalMoves(buf[:0]) {
			if m.String() == ms {
				b.MakeMove(move.Move(m.Enc()))
				p = p.Make(m)
				found = true
				break
			}
		}
		if !found {
			return false, "replay move " + ms + " not legal in reference"
		}
	}
	if c.How == "reloaded" {
		nb, err := board.FromFEN(b.FEN())
		if err != nil {
			return true, "engine rejects its own FEN: " + err.Error()
		}
		b = nb
	}
	msg := c01Compare(move.NewStore(), b, &p)
	return msg != "", msg
}

func init() {
	register(&Check{ID: "C01", Level: "model_checking", Run: runC01, Replay: c01Replay})
}

func runC01(r *ev.Run) {
	var positions, moves, mates, stalemates, castles, eps, promos atomic.Int64
	count := func(p *refchess.Pos, n int) {
		positions.Add(1)
		moves.Add(int64(n))
	}
	_ = count

	check := func(ms *move.Store, b *board.Board, p *refchess.Pos, mk func() c01Case) {
		r.Evals.Add(1)
		if msg := c01Compare(ms, b, p); msg != "" {
			c := mk()
			r.Fail("moveset/"+c.How, c, "%s %v [%s]: %s", c.FEN, c.Moves, c.How, msg)
		}
	}

	// statistics used for the non-vacuity figures
	stat := func(p *refchess.Pos) {
		var buf [256]refchess.Move
		lm := p.LegalMoves(buf[:0])
		positions.Add(1)
		moves.Add(int64(len(lm)))
		if len(lm) == 0 {
			if p.InCheck(int(p.Stm)) {
				mates.Add(1)
			} else {
				stalemates.Add(1)
			}
		}
		for _, m := range lm {
			k := p.Sq[m.From]
			if k < 0 {
				k = -k
			}
			if k == refchess.King && (m.To-m.From == 2 || m.From-m.To == 2) {
				castles.Add(1)
			}
			if m.Promo != 0 {
				promos.Add(1)
			}
			if k == refchess.Pawn && m.To == p.Ep && (m.From&7) != (m.To&7) {
				eps.Add(1)
			}
		}
	}

	// --- U1: closed material classes -----------------------------------
	classes := universe.ThreeMan()
	extra := seedFour(r, 0, 1, 12)
	classes = append(classes, parseClasses(extra)...)
	r.Set("classes", classNames(classes))
	newW := func() *c01Worker { return &c01Worker{ms: move.NewStore()} }
	var sampleCtr atomic.Int64
	complete := forClasses(r, classes, universe.Opts{}, newW, func(w *c01Worker, p *refchess.Pos) {
		b := w.ld.Load(p)
		check(w.ms, b, p, func() c01Case { return c01Case{FEN: p.FEN(), How: "fen"} })
		stat(p)
		if p.Castle != 0 || p.Ep >= 0 {
			r.Nontrivial.Add(1)
			if sampleCtr.Add(1)%200000 == 1 {
				r.Sample(map[string]any{"universe": "U1", "fen": p.FEN()})
			}
		}
	})
	u1 := positions.Load()
	r.Set("u1_positions", u1)
	r.Set("u1_complete", complete)
	// the rights- and en-passant-bearing positions of further classes (castling out of / through / into attack by
	// every kind of attacker, rights lost by capture on the corners, en-passant captures with pins)
	var viaUCI atomic.Int64
	visitSpecial := func(w *c01Worker, p *refchess.Pos) {
		b := w.ld.Load(p)
		check(w.ms, b, p, func() c01Case { return c01Case{FEN: p.FEN(), How: "fen"} })
		stat(p)
		r.Nontrivial.Add(1)
		// where castling is legal, every legal move also through the GUI's `position .. moves ..` path
		var buf [256]refchess.Move
		lm := p.LegalMoves(buf[:0])
		for _, m := range lm {
			if k := p.Sq[m.From]; (k == refchess.King || k == -refchess.King) && (m.To-m.From == 2 || m.From-m.To == 2) {
				viaUCI.Add(int64(len(lm)))
				if mv, msg := c01ViaUCI(&w.ld, p, lm); msg != "" {
					r.Fail("uci-played", c01Case{FEN: p.FEN(), Moves: []string{mv}, How: "uci"}, "%s", msg)
				}
				break
			}
		}
	}
	castling := parseClasses([]string{"KRkr", "KRkb", "KRkn", "KRkq", "KRRk", "KRkp", "KRPk", "KQkr", "KBkr", "KNkr"})
	forCastlingPositions(r, castling, newW, visitSpecial)
	pawnEP := parseClasses(ev.Pick(r, []string{}, []string{"KPkp", "KPPk", "Kkpp"}))
	if len(pawnEP) > 0 {
		forClasses(r, pawnEP, universe.Opts{OnlySpecial: true, NoRights: true}, newW, visitSpecial)
	}
	r.Set("castling_subclasses", classNames(castling))

	r.Set("en_passant_subclasses", classNames(pawnEP))
	if r.Thorough() {
		// constrained 5-man classes: the lone side's king confined to the corner region
		five := []string{"KRPkp", "KBNkp", "KQPkr", "KNPkb"}
		for _, name := range five {
			forClasses(r, []universe.Class{universe.ParseClass(name)}, universe.Opts{NoRights: true, BlackKingIn: []int{56, 57, 48, 63, 62, 55}}, newW, func(w *c01Worker, p *refchess.Pos) {
				b := w.ld.Load(p)
				check(w.ms, b, p, func() c01Case { return c01Case{FEN: p.FEN(), How: "fen"} })
				stat(p)
			})
		}
		r.Set("five_man_constrained", five)
	}

	// --- U2: move trees, as played and as reloaded -------------------------
	roots := universe.AllRoots()
	depth := ev.Pick(r, 2, 3)
	var u2nodes atomic.Int64
	ev.Parallel(len(roots), func(worker, item int) {
		if r.Expired() {
			return
		}
		root := roots[item]
		ms := move.NewStore()
		var ld eng.Loader
		b := eng.Load(&root.Pos)
		w := &universe.Walker{}
		w.Visit = func(w *universe.Walker, p *refchess.Pos, left int) bool {
			u2nodes.Add(1)
			mk := func(how string) func() c01Case {
				return func() c01Case { return c01Case{FEN: root.FEN, Moves: w.PathStrings(), How: how} }
			}
			check(ms, w.B, p, mk("played"))
			// nodes with promotions, en-passant captures or castling: every legal move also through the GUI's move path
			if p.Half <= 100 {
				var buf [256]refchess.Move
				lm := p.LegalMoves(buf[:0])
				for _, m := range lm {
					k := p.Sq[m.From]
					if k < 0 {
						k = -k
					}
					if m.Promo != 0 || (k == refchess.King && (m.To-m.From == 2 || m.From-m.To == 2)) || (k == refchess.Pawn && m.To == p.Ep && (m.From&7) != (m.To&7)) {
						viaUCI.Add(int64(len(lm)))
						var ld2 eng.Loader
						if mv, msg := c01ViaUCI(&ld2, p, lm); msg != "" {
							r.Fail("uci-played", c01Case{FEN: p.FEN(), Moves: []string{mv}, How: "uci"}, "%s", msg)
						}
						break
					}
				}
			}
			if p.Half <= 100 { // the FEN parser's own clock domain ends at 100 (judged by C11, not here)
				nb, err := ld.LoadText(w.B.FEN())
				if err != nil {
					r.Fail("own-fen-rejected", mk("reloaded")(), "engine rejects its own FEN %q: %v", w.B.FEN(), err)
				} else {
					check(ms, nb, p, mk("reloaded"))
				}
				if p.Ep >= 0 {
					// FIDE-style (non-normalised) en-passant target through the parser
					check(ms, ld.Load(p), p, func() c01Case { return c01Case{FEN: p.FEN(), How: "fen"} })
				}
			}
			stat(p)
			r.Nontrivial.Add(1)
			if len(w.Path) == 2 && u2nodes.Load()%50000 == 1 {
				r.Sample(map[string]any{"universe": "U2", "root": root.FEN, "moves": w.PathStrings()})
			}
			return !r.Expired()
		}
		w.Walk(&root.Pos, b, depth)
	})
	r.Set("u2_roots", len(roots))
	r.Set("u2_depth", depth)
	r.Set("u2_nodes", u2nodes.Load())
	r.Set("moves_played_through_uci_position_command", viaUCI.Load())

	// --- en-passant family: the position REACHED BY PLAYING a double push between 0-2 capturers, with both
	// kings and one slider anywhere: the playable set after the push (en-passant captures included) must be the legal set
	var epN, rawEP atomic.Int64
	epFamily(r, []int{int((r.Seed + 1) % 8), int((r.Seed + 4) % 8)}, ev.Pick(r, []int8{0, 4, -4, -5}, []int8{0, 3, 4, 5, -3, -4, -5, 2, -2}), func(ld *eng.Loader, pos *refchess.Pos, mm refchess.Move, child *refchess.Pos) {
		if epN.Add(1)%int64(ev.Pick(r, 2, 1)) != 0 {
			return
		}
		b := ld.Load(pos)
		b.MakeMove(move.Move(mm.Enc()))
		ms := ld.Store()
		check(ms, b, child, func() c01Case { return c01Case{FEN: pos.FEN(), Moves: []string{mm.String()}, How: "played"} })
		// where the pushed pawn can be captured en passant only illegally, the same position as a FIDE-style FEN
		// (target recorded although no legal capture exists): the generator-plus-filter set, and the search's own
		// copy of the legality filter (a depth-1 search must come back with a legal move, or none if there is none)
		if n := child.Normalized(); n.Ep != child.Ep {
			b2 := ld.Load(child)
			check(ms, b2, child, func() c01Case { return c01Case{FEN: child.FEN(), How: "fen"} })
			rawEP.Add(1)
			if msg := c01SearchFilter(b2, child); msg != "" {
				r.Fail("search-filter", c01Case{FEN: child.FEN(), How: "search"}, "%s: %s", child.FEN(), msg)
			}
		}
	})
	r.Set("ep_family_positions", epN.Load())
	r.Set("ep_family_fide_style_fens_also_searched", rawEP.Load())

	// --- long reversible lines: positions reached by many moves (clocks far
	// beyond 100, rights kept alive), playable set compared after every ply ---
	var longPlies atomic.Int64
	longRoots := []string{
		"rn2k2r/8/8/8/8/8/8/RN2K2R w KQkq - 95 1",
		"rn2k2r/pppppppp/8/8/8/8/PPPPPPPP/RN2K2R b KQkq - 80 10",
		"4k2n/8/8/8/8/8/8/N3K3 w - - 100 40",
	}
	plies := ev.Pick(r, 70, 220)
	ev.Parallel(len(longRoots), func(worker, item int) {
		fen := longRoots[item]
		p := refchess.MustFEN(fen)
		b := eng.Load(&p)
		ms := move.NewStore()
		var played []string
		for i := 0; i < plies; i++ {
			var buf [256]refchess.Move
			var pick *refchess.Move
			lm := p.LegalMoves(buf[:0])
			for k := range lm {
				m := lm[(k+i*5)%len(lm)]
				if p.Sq[m.To] == 0 && (p.Sq[m.From] == refchess.Knight || p.Sq[m.From] == -refchess.Knight) {
					pick = &m
					break
				}
			}
			if pick == nil {
				break
			}
			b.MakeMove(move.Move(pick.Enc()))
			p = p.Make(*pick)
			played = append(played, pick.String())
			longPlies.Add(1)
			snap := append([]string(nil), played...)
			check(ms, b, &p, func() c01Case { return c01Case{FEN: fen, Moves: snap, How: "played"} })
			stat(&p)
		}
	})
	r.Set("long_line_plies", longPlies.Load())
	r.States.Store(positions.Load())
	r.Transitions.Store(moves.Load())
	r.Validated.Store(moves.Load())
	r.Set("rule", "every valid position of the listed material classes (all placements x side x admissible rights x admissible en-passant targets) loaded through FromFEN, plus every node of the legal-move tree below the root corpus examined as played, as reloaded from its own FEN and with FIDE-style en-passant FEN; non-trivial = carries rights or an en-passant target (U1) or is a tree node (U2); states = positions, transitions = legal moves compared as sets with the reference model")
	r.Set("distinct_outcomes", map[string]int64{"checkmates": mates.Load(), "stalemates": stalemates.Load(), "castling_moves": castles.Load(), "en_passant_moves": eps.Load(), "promotion_moves": promos.Load()})
	r.Assume("reference model refchess validated against 664 published perft counts (setup) and in lock-step on every transition")
	r.Assume("positions outside the enumerated classes and beyond the tree depth are not covered")
}
