package checks

import (
	"encoding/json"
	"fmt"
	"sync/atomic"

	"github.com/paulsonkoly/chess-3/board"
	. "github.com/paulsonkoly/chess-3/chess"
	"github.com/paulsonkoly/chess-3/move"

	"verif/eng"
	"verif/ev"
	"verif/refchess"
	"verif/universe"
)

// C04 — incremental hash and redundant representations never drift;
// transpositions hash equal.

type c04Case struct {
	FEN   string   `json:"fen"`
	Moves []string `json:"moves"` // "0000" = null move
}

// c04Consistent checks the redundant encodings and the hash of b.
func c04Consistent(b *board.Board) string {
	if b.Hash() != b.VerifCalcHash() {
		return fmt.Sprintf("incremental hash %016x != from-scratch hash %016x", uint64(b.Hash()), uint64(b.VerifCalcHash()))
	}
	if b.Colors[White]&b.Colors[Black] != 0 {
		return "colour sets overlap"
	}
	var union BitBoard
	for pc := Pawn; pc <= King; pc++ {
		if union&b.Pieces[pc] != 0 {
			return "piece-type sets overlap"
		}
		union |= b.Pieces[pc]
	}
	if b.Pieces[NoPiece] != 0 {
		return "NoPiece set not empty"
	}
	if union != b.Colors[White]|b.Colors[Black] {
		return "union of piece-type sets != union of colour sets"
	}
	for sq := Square(0); sq < 64; sq++ {
		pc := b.SquaresToPiece[sq]
		bit := BitBoard(1) << sq
		if pc == NoPiece {
			if union&bit != 0 {
				return fmt.Sprintf("square %s empty in the map but set in the sets", sq)
			}
		} else if pc > King || b.Pieces[pc]&bit == 0 {
			return fmt.Sprintf("square %s: map says %v, sets disagree", sq, pc)
		}
	}
	return ""
}

type c04Walker struct {
	r                                       *ev.Run
	b                                       *board.Board
	rootFEN                                 string
	rootKey                                 refchess.Key
	rootRaw                                 bool // the root FEN carries an en-passant target that cannot be captured
	rootHash                                board.Hash
	path                                    []string
	table                                   map[refchess.Key]board.Hash
	byHash                                  map[board.Hash]int
	nodes, transHits, nullMoves, collisions *atomic.Int64
	maxNull                                 int
}

func (w *c04Walker) c() c04Case {
	return c04Case{FEN: w.rootFEN, Moves: append([]string(nil), w.path...)}
}

func (w *c04Walker) setRoot(p *refchess.Pos) {
	w.rootKey = p.Key()
	w.rootRaw = p.Ep >= 0 && !p.EPCapturable()
	w.rootHash = w.b.Hash()
}

func (w *c04Walker) visit(p *refchess.Pos, depth int, nullRun int) {
	w.nodes.Add(1)
	b := w.b
	if msg := c04Consistent(b); msg != "" {
		cls := "drift/representation"
		if len(msg) > 11 && msg[:11] == "incremental" {
			cls = "drift/hash"
		}
		w.r.Fail(cls, w.c(), "%s after %v: %s", w.rootFEN, w.path, msg)
		return
	}
	// state matching doubles as the transposition oracle
	k := p.Key()
	if h, ok := w.table[k]; ok {
		w.transHits.Add(1)
		if h != b.Hash() {
			cls := "transposition"
			if w.rootRaw && k == w.rootKey && h == w.rootHash {
				// only the FEN-loaded root itself carries the raw target: its own
				// hash is the odd one out, every recurrence hashes like the
				// from-scratch hash of the normalised position (checked above)
				cls = "transposition/root-fen-ep-not-capturable"
			}
			w.r.Fail(cls, w.c(), "%s after %v: position reached before with hash %016x, now %016x", w.rootFEN, w.path, uint64(h), uint64(b.Hash()))
		}
	} else {
		w.table[k] = b.Hash()
		w.byHash[b.Hash()]++
		if w.byHash[b.Hash()] > 1 {
			w.collisions.Add(1)
		}
	}
	if depth == 0 {
		return
	}
	var buf [256]refchess.Move
	for _, m := range p.LegalMoves(buf[:0]) {
		child := p.Make(m)
		em := move.Move(m.Enc())
		rv := b.MakeMove(em)
		w.path = append(w.path, m.String())
		w.visit(&child, depth-1, 0)
		w.path = w.path[:len(w.path)-1]
		b.UndoMove(em, rv)
	}
	if !p.InCheck(int(p.Stm)) && nullRun < w.maxNull {
		child := *p
		child.Stm ^= 1
		child.Ep = -1
		rv := b.MakeNullMove()
		w.nullMoves.Add(1)
		w.path = append(w.path, "0000")
		w.visit(&child, depth-1, nullRun+1)
		w.path = w.path[:len(w.path)-1]
		b.UndoNullMove(rv)
	}
}

func c04Replay(class string, raw json.RawMessage) (bool, string) {
	var c c04Case
	if err := json.Unmarshal(raw, &c); err != nil {
		return false, err.Error()
	}
	p := refchess.MustFEN(c.FEN)
	b := eng.Load(&p)
	seen := map[refchess.Key]board.Hash{}
	bad := ""
	note := func() {
		if msg := c04Consistent(b); msg != "" && bad == "" {
			bad = msg
		}
		seen[p.Key()] = b.Hash()
	}
	note()
	for _, s := range c.Moves {
		if s == "0000" {
			b.MakeNullMove()
			p.Stm ^= 1
			p.Ep = -1
		} else {
			var buf [256]refchess.Move
			found := false
			for _, m := range p.LegalMoves(buf[:0]) {
				if m.String() == s {
					b.MakeMove(move.Move(m.Enc()))
					p = p.Make(m)
					found = true
					break
				}
			}
			if !found {
				return false, "move " + s + " not legal in the reference"
			}
		}
		note()
	}
	if bad != "" {
		return true, bad
	}
	// transposition class: compare with the hash of the same position loaded from FEN
	n := p.Normalized()
	if fb := eng.Load(&n); fb.Hash() != b.Hash() {
		return true, fmt.Sprintf("hash after the moves %016x != hash of the same position loaded from FEN %016x", uint64(b.Hash()), uint64(fb.Hash()))
	}
	return false, "hash and representations consistent along the line"
}

func init() {
	register(&Check{ID: "C04", Level: "model_checking", Run: runC04, Replay: c04Replay})
}

func runC04(r *ev.Run) {
	var nodes, transHits, nullMoves, collisions, distinct atomic.Int64
	roots := universe.AllRoots()
	depth := ev.Pick(r, 3, 4)
	ev.Parallel(len(roots), func(worker, item int) {
		if r.Expired() {
			return
		}
		root := roots[item]
		d := depth
		var buf [256]refchess.Move
		if n := len(root.Pos.LegalMoves(buf[:0])); n > 30 {
			d = depth - 1 // fat roots one ply shallower
		}
		w := &c04Walker{r: r, b: eng.Load(&root.Pos), rootFEN: root.FEN, table: map[refchess.Key]board.Hash{}, byHash: map[board.Hash]int{},
			nodes: &nodes, transHits: &transHits, nullMoves: &nullMoves, collisions: &collisions, maxNull: 2}
		w.setRoot(&root.Pos)
		w.visit(&root.Pos, d, 0)
		distinct.Add(int64(len(w.table)))
		if item%40 == 0 {
			r.Sample(map[string]any{"root": root.FEN, "depth": d, "distinct_positions": len(w.table)})
		}
	})
	r.Set("u2_depth", depth)
	r.Set("u2_roots", len(roots))

	// U1: 3-man classes: every position, every legal move and the null move, 2 deep
	classes := universe.ThreeMan()
	classes = append(classes, parseClasses(seedPick(fourMan, r.Seed+5, ev.Pick(r, 0, 4)))...)
	r.Set("classes", classNames(classes))
	type worker struct {
		ld eng.Loader
		w  c04Walker
	}
	var u1 atomic.Int64
	forClasses(r, classes, universe.Opts{}, func() *worker {
		return &worker{w: c04Walker{r: r, table: map[refchess.Key]board.Hash{}, byHash: map[board.Hash]int{},
			nodes: &nodes, transHits: &transHits, nullMoves: &nullMoves, collisions: &collisions, maxNull: 1}}
	}, func(w *worker, p *refchess.Pos) {
		u1.Add(1)
		w.w.b = w.ld.Load(p)
		w.w.rootFEN = p.FEN()
		w.w.path = w.w.path[:0]
		clear(w.w.table)
		clear(w.w.byHash)
		w.w.setRoot(p)
		w.w.visit(p, 1, 0)
	})
	r.Set("u1_positions", u1.Load())

	r.States.Store(distinct.Load() + u1.Load())
	r.Transitions.Store(nodes.Load())
	r.Validated.Store(nodes.Load())
	r.Evals.Store(nodes.Load())
	r.Nontrivial.Store(transHits.Load() + nullMoves.Load())
	r.Set("distinct_outcomes", map[string]int64{"transposition_hits": transHits.Load(), "null_moves": nullMoves.Load(), "distinct_keys_with_equal_hash": collisions.Load()})
	r.Set("rule", "explicit-state DFS over real MakeMove/MakeNullMove (legal moves; null moves out of check, up to two in a row) below the root corpus and every position of the listed classes; after every make: Hash()==from-scratch hash, the three placement encodings agree square by square; state matching on the reference key (placement, side, rights, ep capturability) is the transposition oracle: a key reached again by another path must carry the hash first recorded; non-trivial = transposition hits + null moves")
	r.Assume("from-scratch hash through the verif hook board.VerifCalcHash; 64-bit Zobrist collisions between different keys are counted, not judged")
}
